package main

import (
	"github.com/wormhole-foundation/example-near-light-client/types"
	"github.com/wormhole-foundation/example-near-light-client/variables"
	"encoding/json"
	"fmt"
	"math/big"
	"os"
	"reflect"
	"regexp"
	"strconv"

	"github.com/consensys/gnark/frontend"
	"github.com/consensys/gnark/test"
	"github.com/wormhole-foundation/example-near-light-client/verifier"
)

// Whole-circuit replays: the real wrapper circuit (hooks off) evaluated by gnark's test engine
// (test.IsSolved) on an edited copy of an honest assignment.

type edit struct {
	Path string `json:"path"`          // e.g. .ProofWithPis.PublicInputs[3].Limb
	Add  string `json:"add,omitempty"` // decimal, added to the honest value
	Set  string `json:"set,omitempty"` // decimal, replaces the honest value
}

type circuitReplay struct {
	Kind     string `json:"kind"` // "circuit"
	Wrapper  string `json:"wrapper"`
	Instance string `json:"instance"`
	K        int    `json:"k"`
	Edits    []edit `json:"edits"`
	Expect   string `json:"expect"`
	// Lenient replaces the repository's hint functions by versions without their solver-side
	// refusals of operands >= p (a prover may run any hint code; only constraints bind him).
	Lenient bool `json:"lenient_hints,omitempty"`
	// KeyEdits alter the verifier data BEFORE the circuit is built (template and assignment alike):
	// a wrapper built for another key. Index 0..15 = constants/sigmas cap entry, 16 = circuit digest.
	KeyEdits []keyEdit `json:"key_edits,omitempty"`
	// Only, when "rangeCheckProof", runs just verifier.(*VerifierChip).rangeCheckProof on the proof (the
	// one place where proof elements are forced into canonical form) instead of the whole verifier.
	Only string `json:"only,omitempty"`
	// Commit runs the circuit with the commitment-based range checker (environment switch unset; the
	// test engine is a frontend.Committer) instead of bit decomposition.
	Commit bool `json:"commit_checker,omitempty"`
}

// rangeCheckProofCircuit runs the real rangeCheckProof alone.
type rangeCheckProofCircuit struct {
	Proof  variables.Proof
	Common types.CommonCircuitData `gnark:"-"`
}

func (c *rangeCheckProofCircuit) Define(api frontend.API) error {
	chip := verifier.NewVerifierChip(api, c.Common)
	fn[func(*verifier.VerifierChip, variables.Proof)]("verifier.VerifierChip.rangeCheckProof")(chip, c.Proof)
	return nil
}

type keyEdit struct {
	Index int    `json:"index"`
	Add   string `json:"add"`
}

// lenientHintHooks: the repository's hint functions without their input guards.
func lenientHintHooks() map[string]hookFn {
	two32 := new(big.Int).Lsh(big.NewInt(1), 32)
	return map[string]hookFn{
		"goldilocks.MulAddHint": func(recv any, args []any) []any {
			in, res := args[1].([]*big.Int), args[2].([]*big.Int)
			sum := new(big.Int).Add(new(big.Int).Mul(in[0], in[1]), in[2])
			res[0] = new(big.Int).Div(sum, P)
			res[1] = new(big.Int).Rem(sum, P)
			return []any{nil}
		},
		"goldilocks.SplitLimbsHint": func(recv any, args []any) []any {
			in, res := args[1].([]*big.Int), args[2].([]*big.Int)
			res[0] = new(big.Int).Quo(in[0], two32)
			res[1] = new(big.Int).Rem(in[0], two32)
			return []any{nil}
		},
		"goldilocks.InverseHint": func(recv any, args []any) []any {
			in, res := args[1].([]*big.Int), args[2].([]*big.Int)
			x := new(big.Int).Mod(in[0], P)
			if x.Sign() == 0 {
				res[0] = new(big.Int)
			} else {
				res[0] = new(big.Int).ModInverse(x, P)
			}
			return []any{nil}
		},
	}
}

var pathRe = regexp.MustCompile(`\.([A-Za-z_0-9]+)|\[(\d+)\]`)

func navigate(root reflect.Value, path string) (reflect.Value, error) {
	v := root
	for _, m := range pathRe.FindAllStringSubmatch(path, -1) {
		for v.Kind() == reflect.Ptr || (v.Kind() == reflect.Interface && v.Type() != fvType) {
			v = v.Elem()
		}
		if m[1] != "" {
			if v.Kind() != reflect.Struct {
				return v, fmt.Errorf("path %s: not a struct at %s", path, m[0])
			}
			v = v.FieldByName(m[1])
			if !v.IsValid() {
				return v, fmt.Errorf("path %s: no field %s", path, m[1])
			}
		} else {
			i, _ := strconv.Atoi(m[2])
			if (v.Kind() != reflect.Slice && v.Kind() != reflect.Array) || i >= v.Len() {
				return v, fmt.Errorf("path %s: index %d out of range", path, i)
			}
			v = v.Index(i)
		}
	}
	return v, nil
}

func toBig(v any) *big.Int {
	var b big.Int
	switch x := v.(type) {
	case *big.Int:
		b.Set(x)
	case big.Int:
		b.Set(&x)
	case uint64:
		b.SetUint64(x)
	case int:
		b.SetInt64(int64(x))
	case string:
		b.SetString(x, 0)
	default:
		if t, ok := v.(interface{ ToBigIntRegular(*big.Int) *big.Int }); ok {
			t.ToBigIntRegular(&b)
		} else {
			panic(fmt.Sprintf("toBig %T", v))
		}
	}
	return &b
}

func runCircuitReplay(c *circuitReplay, repo string) (accepted bool, msg string) {
	clearHooks()
	in := loadInstance(repo, c.Instance)
	if c.K > 0 && c.K < len(in.Proof.Proof.OpeningProof.QueryRoundProofs) {
		in = in.restrict(c.K)
	}
	old, had := os.LookupEnv("USE_BIT_DECOMPOSITION_RANGE_CHECK")
	os.Setenv("USE_BIT_DECOMPOSITION_RANGE_CHECK", "true")
	if c.Commit {
		os.Unsetenv("USE_BIT_DECOMPOSITION_RANGE_CHECK")
	}
	defer func() {
		if had {
			os.Setenv("USE_BIT_DECOMPOSITION_RANGE_CHECK", old)
		} else {
			os.Unsetenv("USE_BIT_DECOMPOSITION_RANGE_CHECK")
		}
	}()
	if len(c.KeyEdits) > 0 {
		cp := *in
		cp.VD = cloneValue(in.VD)
		for _, ke := range c.KeyEdits {
			d, _ := new(big.Int).SetString(ke.Add, 10)
			if d == nil {
				return false, "bad key edit"
			}
			if ke.Index >= 0 && ke.Index < len(cp.VD.ConstantSigmasCap) {
				cp.VD.ConstantSigmasCap[ke.Index] = new(big.Int).Add(toBig(cp.VD.ConstantSigmasCap[ke.Index]), d)
			} else {
				cp.VD.CircuitDigest = new(big.Int).Add(toBig(cp.VD.CircuitDigest), d)
			}
		}
		in = &cp
	}
	var circuit, witness frontend.Circuit
	packed := func() [4]frontend.Variable {
		var out [4]frontend.Variable
		for j := 0; j < 4; j++ {
			acc := new(big.Int)
			for i := 0; i < 4; i++ {
				acc.Lsh(acc, 32)
				acc.Add(acc, new(big.Int).SetUint64(in.RawPis[4*j+i]))
			}
			out[j] = acc
		}
		return out
	}
	if c.Only == "rangeCheckProof" {
		circuit = &rangeCheckProofCircuit{Proof: cloneValue(in.Proof.Proof), Common: in.Common}
		witness = &rangeCheckProofCircuit{Proof: cloneValue(in.Proof.Proof), Common: in.Common}
	}
	switch {
	case c.Only == "rangeCheckProof":
	case c.Wrapper == "verifier":
		circuit = &verifier.VerifierCircuit{Proof: cloneValue(in.Proof.Proof), PublicInputs: cloneValue(in.Proof.PublicInputs), VerifierData: cloneValue(in.VD), CommonCircuitData: in.Common}
		witness = &verifier.VerifierCircuit{Proof: cloneValue(in.Proof.Proof), PublicInputs: cloneValue(in.Proof.PublicInputs), VerifierData: cloneValue(in.VD), CommonCircuitData: in.Common}
	case c.Wrapper == "fixed":
		circuit = &verifier.CircuitFixed{ProofWithPis: cloneValue(in.Proof), VerifierData: cloneValue(in.VD), CommonCircuitData: in.Common, PublicInputs: packed()}
		witness = &verifier.CircuitFixed{ProofWithPis: cloneValue(in.Proof), VerifierData: cloneValue(in.VD), CommonCircuitData: in.Common, PublicInputs: packed()}
	default:
		return false, "unknown wrapper"
	}
	for _, ed := range c.Edits {
		v, err := navigate(reflect.ValueOf(witness), ed.Path)
		if err != nil {
			return false, err.Error()
		}
		if v.Type() != fvType || !v.CanSet() {
			return false, "edit path does not name a settable frontend.Variable: " + ed.Path
		}
		cur := toBig(v.Interface())
		if ed.Set != "" {
			cur, _ = new(big.Int).SetString(ed.Set, 10)
		}
		if ed.Add != "" {
			a, _ := new(big.Int).SetString(ed.Add, 10)
			cur = new(big.Int).Add(cur, a)
		}
		v.Set(reflect.ValueOf(cur))
	}
	var err error
	if c.Lenient {
		setHooks(lenientHintHooks())
		defer clearHooks()
	}
	pm := catchPanic(func() { quiet(func() { err = test.IsSolved(circuit, witness, R) }) })
	if pm != "" {
		return false, "panic: " + short(pm, 200)
	}
	if err != nil {
		return false, short(err.Error(), 200)
	}
	return true, ""
}

func init() {
	replayKinds["circuit"] = func(prop, path string, raw json.RawMessage, repo string) int {
		var c circuitReplay
		json.Unmarshal(raw, &c)
		acc, msg := runCircuitReplay(&c, repo)
		fmt.Printf("replay %s: wrapper=%s instance=%s k=%d edits=%v -> accepted=%v %s\n", prop, c.Wrapper, c.Instance, c.K, c.Edits, acc, msg)
		if acc == (c.Expect == "accepted") {
			fmt.Printf("VIOLATION property=%s replay=%s\n", prop, path)
			return 1
		}
		fmt.Println("not reproduced on the current tree")
		return 0
	}
	replayKinds["vc"] = func(prop, path string, raw json.RawMessage, repo string) int {
		fmt.Println("site-level verification condition: re-run the check to re-derive it from the current tree")
		return 2
	}
}
