package main

import (
	"github.com/wormhole-foundation/example-near-light-client/variables"
	"github.com/consensys/gnark/frontend"
	"os"
	"encoding/json"
	"fmt"
	"strings"
	"time"

	"github.com/wormhole-foundation/example-near-light-client/fri"
	gl "github.com/wormhole-foundation/example-near-light-client/goldilocks"
	"github.com/wormhole-foundation/example-near-light-client/types"

	"verif/engine/smt"
	"verif/engine/sym"
)

func init() { drivers["C14"] = runC14 }

func leadingZerosBody(common *types.CommonCircuitData, b uint64) func(chip *gl.Chip, x gl.Variable) {
	f := fn[func(*fri.Chip, gl.Variable, types.FriConfig)]("fri.Chip.assertLeadingZeros")
	return func(chip *gl.Chip, x gl.Variable) {
		c := *common
		fc := fri.NewChip(cur.Self, &c, &c.FriParams)
		cfg := c.FriParams.Config
		cfg.ProofOfWorkBits = b
		f(fc, x, cfg)
	}
}

// powThroughVerify runs fri.(*Chip).VerifyFriProof for a description with the given reduction steps, no query
// round and difficulty b, with x as the proof-of-work response: the response check is then the only
// thing VerifyFriProof has to enforce.
func powThroughVerify(api frontend.API, x gl.Variable, b uint64, arity []uint64) {
	var common types.CommonCircuitData
	deg := uint64(2)
	for _, a := range arity {
		deg += a
	}
	common.DegreeBits = deg
	common.FriParams = types.FriParams{Config: types.FriConfig{RateBits: 3, CapHeight: 0, ProofOfWorkBits: b, NumQueryRounds: 0}, DegreeBits: deg, ReductionArityBits: arity}
	common.Config.FriConfig = common.FriParams.Config
	fc := fri.NewChip(api, &common, &common.FriParams)
	var proof variables.FriProof
	for i := 0; i < common.FriParams.FinalPolyLen(); i++ {
		proof.FinalPoly.Coeffs = append(proof.FinalPoly.Coeffs, gl.ZeroExtension())
	}
	proof.PowWitness = gl.Zero()
	ch := variables.FriChallenges{FriAlpha: gl.OneExtension(), FriPowResponse: x}
	for range arity {
		proof.CommitPhaseMerkleCaps = append(proof.CommitPhaseMerkleCaps, variables.FriMerkleCap{frontend.Variable(0)})
		ch.FriBetas = append(ch.FriBetas, gl.OneExtension())
	}
	op := fri.Openings{Batches: []fri.OpeningBatch{{Values: []gl.QuadraticExtensionVariable{gl.OneExtension()}}, {Values: []gl.QuadraticExtensionVariable{gl.OneExtension()}}}}
	fc.VerifyFriProof(fri.InstanceInfo{}, op, &ch, nil, &proof)
}

func runC14(r *Run) {
	r.Functions = []string{"fri.(*Chip).assertLeadingZeros", "fri.(*Chip).VerifyFriProof (argument of the proof-of-work check)", "challenger.(*Chip).GetFriChallenges", "goldilocks.(*Chip).RangeCheckWithMaxBits"}
	base := loadInstance(r.Repo, "test_circuit")
	// ---- (a) the gadget: accepted <=> response < 2^(64-b), per configuration ----------------------
	configs := []rcConfig{{capPlain, false, ""}, {capNative, false, ""}, {capCommit, false, ""}}
	if r.Thorough() {
		configs = append(configs, rcConfig{capCommit, true, ""}, rcConfig{capNative, true, ""}, rcConfig{capCommit, false, "scs"})
	}
	refusals := 0
	for _, cfg := range configs {
		kind := ""
		func() {
			api := cfg.newAPI()
			defer forgetChips()
			kind = actualKind(newChip(api))
		}()
		var items []rangeItem
		for b := 1; b <= 63; b++ {
			b := b
			width := 64 - b
			it := rangeItem{name: fmt.Sprintf("pow[%s,b=%d]", cfg, b), bound: pow2(width), gadget: "LeadingZeros", n: width, body: leadingZerosBody(&base.Common, uint64(b))}
			switch kind {
			case "native":
				it.compl = "direct"
			case "bitdecomp":
				it.compl, it.step = "step", 1
				if width <= 4 {
					it.compl = "direct"
				}
			case "commit":
				it.compl, it.step = "step", 16
				if width <= 32 {
					it.compl = "direct"
				}
				if width%16 != 0 {
					msg := catchPanic(func() {
						api := cfg.newAPI()
						defer forgetChips()
						chip := newChip(api)
						x := inAtom("x", sym.Rm1)
						it.body(chip, gl.NewVariable(x))
						pad := inAtom("pad", sym.Rm1)
						for i := 0; i < commitPad; i++ {
							chip.RangeCheckWithMaxBits(gl.NewVariable(pad), 32)
						}
						if err := cur.RunDeferredN(1); err != nil {
							panic(err)
						}
					})
					if msg != "" {
						refusals++
						if refusals <= 2 {
							r.Sample(map[string]any{"config": cfg.String(), "proof_of_work_bits": b, "refused_at_definition": msg})
						}
						continue
					}
				}
			}
			items = append(items, it)
		}
		rangeLemmas(r, cfg, items)
		r.Discharge()
		if kind == "bitdecomp" {
			// the same through VerifyFriProof, for descriptions with no, one and two reduction steps (the check must
			// not depend on the presence of folding)
			var its []rangeItem
			for _, ar := range [][]uint64{{}, {1}, {4, 4}} {
				ar := ar
				its = append(its, rangeItem{name: fmt.Sprintf("pow through VerifyFriProof[%s,b=16,%d reduction steps]", cfg, len(ar)), bound: pow2(48), gadget: fmt.Sprintf("PowVerify%d", len(ar)), n: 48,
					body: func(chip *gl.Chip, x gl.Variable) { powThroughVerify(cur.Self, x, 16, ar) }})
			}
			rangeLemmas(r, cfg, its)
			r.Discharge()
		}
	}
	r.Extra["definition_time_refusals"] = refusals

	// ---- (b) what is checked is the challenge drawn after the witness -----------------------------
	ks := []int{1}
	for _, k := range ks {
		in := base.restrict(k)
		var got []*sym.Term
		var gotBits []uint64
		w := walkVerifier(in, walkOpts{Wrapper: "verifier", Cap: capPlain, Field: true, PermGL: true, PermBN: true, NoShape: true,
			Extra: map[string]hookFn{"fri.Chip.assertLeadingZeros": observe("fri.Chip.assertLeadingZeros", func(recv any, args []any) {
				got = append(got, cur.K(args[0].(gl.Variable).Limb))
				gotBits = append(gotBits, args[1].(types.FriConfig).ProofOfWorkBits)
			})}})
		if w.Panic != "" || w.Err != nil {
			walkFailed(r, in, "verifier", w)
			continue
		}
		if len(got) != 1 {
			r.addViolationStructural("proof-of-work check count", fmt.Sprintf("%s: the proof-of-work condition is imposed %d times in the verifier, plonky2's verifier imposes it exactly once", in.Name, len(got)))
			continue
		}
		T := got[0]
		b := in.Common.FriParams.Config.ProofOfWorkBits
		// the difficulty the circuit description document states (both copies of the FRI configuration)
		if raw, err := os.ReadFile(instancePaths(r.Repo)[in.Base][2]); err == nil {
			var doc struct {
				Config struct {
					FriConfig struct {
						Pow uint64 `json:"proof_of_work_bits"`
					} `json:"fri_config"`
				} `json:"config"`
				FriParams struct {
					Config struct {
						Pow uint64 `json:"proof_of_work_bits"`
					} `json:"config"`
				} `json:"fri_params"`
			}
			if json.Unmarshal(raw, &doc) == nil && doc.Config.FriConfig.Pow == doc.FriParams.Config.Pow && gotBits[0] != doc.FriParams.Config.Pow {
				r.addViolationStructural("proof-of-work difficulty", fmt.Sprintf("%s: the proof-of-work check uses difficulty %d, the circuit description document says proof_of_work_bits = %d", in.Name, gotBits[0], doc.FriParams.Config.Pow))
			}
		}
		if gotBits[0] != b {
			r.addViolationStructural("proof-of-work difficulty", fmt.Sprintf("%s: the proof-of-work check uses difficulty %d, the circuit description says %d", in.Name, gotBits[0], b))
		}
		var pw *sym.Term
		for _, l := range w.Leaves {
			if strings.HasSuffix(l.Path, ".OpeningProof.PowWitness.Limb") {
				pw = l.Atom
			}
		}
		if pw == nil {
			r.Infra("%s: no PowWitness leaf", in.Name)
			continue
		}
		// (i) the enforced facts bound exactly this term by 2^(64-b)
		em := sym.NewEmitter()
		em.DefMode = true
		em.Abstract = func(t *sym.Term) bool { return true } // the value of T is irrelevant: only the facts enforced on it
		tn := em.Ref(T)
		for _, c := range w.E.Cons {
			if c.Kind == sym.CRange && c.A == T {
				em.Assert(em.Cons(c))
			}
		}
		em.Assert(fmt.Sprintf("(not (< %s %s))", tn, pow2(64-int(b))))
		r.Add(&Ob{Name: fmt.Sprintf("pow-width[%s]", in.Name), Family: "pow-transcript", Script: em.String(), Site: "proof-of-work response width", Bound: "whole verifier " + in.Name + ", hashes uninterpreted",
			OnFail: func(res smt.Result) *Violation { return nil }})
		// (ii) the response depends on the witness the prover supplied
		em2 := sym.NewEmitter()
		em2.DefMode = true
		dep := sym.DependsOn(T, pw)
		em2.Abstract = func(t *sym.Term) bool { return !dep[t] }
		t1 := em2.Ref(T)
		pw2 := w.E.NamedAtom(pw.Name+"_b", "input", pw.Hi)
		f := em2.Fork("b_", map[*sym.Term]*sym.Term{pw: pw2})
		t2 := f.Ref(T)
		em2.Raw(f.String())
		em2.Assert(fmt.Sprintf("(not (= %s %s))", t1, t2))
		r.Add(&Ob{Name: fmt.Sprintf("pow-binding[%s]", in.Name), Family: "pow-transcript", Expect: smt.Sat, Script: em2.String(), Fallback: []string{"cvc5", "z3-new"}, TO: 20 * time.Second, Site: "proof-of-work response does not depend on the witness", Bound: "whole verifier " + in.Name + ", hashes uninterpreted",
			OnFail: func(res smt.Result) *Violation {
				return &Violation{What: "the proof-of-work response that is range-checked is independent of the proof-of-work witness (same term for every witness value)", Replay: map[string]any{"kind": "vc", "script": short(em2.String(), 2000)}, Outcome: "solver: unsat for response(witness) != response(witness')"}
			}})
		r.Sample(map[string]any{"instance": in.Name, "checked_term": T.String(), "difficulty": b})
	}
	r.Bounds["difficulties"] = "b = 1..63 under bit decomposition and native; multiples of 16 widths under the commit checker (others must be refused)"
	r.Bounds["values"] = "every response value in [0, r)"
	r.Assumptions = append(r.Assumptions, "hash permutations uninterpreted in the transcript part; equality of the transcript with plonky2's order is C11's obligation")
}
