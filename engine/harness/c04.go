package main

import (
	"fmt"
	"math/big"
	"reflect"
	"strings"

	"github.com/consensys/gnark/frontend"
	gl "github.com/wormhole-foundation/example-near-light-client/goldilocks"
	"github.com/wormhole-foundation/example-near-light-client/variables"

	"verif/engine/smt"
	"verif/engine/sym"
)

func init() { drivers["C04"] = runC04 }

// C04: the verifier key (circuit digest + constants/sigmas cap) of a wrapper is fixed at build time
// or public -- never a value the prover chooses.
func runC04(r *Run) {
	r.Functions = []string{"verifier.CircuitFixed (struct tags, schema)", "verifier.VerifierCircuit (struct tags, schema)", "verifier.(*CircuitFixed).Define", "verifier.(*VerifierCircuit).Define", "fri.(*Chip).verifyMerkleProofToCapWithCapIndex (cap lookup)", "verifier.(*VerifierChip).GetChallenges (digest absorbed)"}
	names := []string{"test_circuit"}
	if r.Thorough() {
		names = append(names, "random/CGZPhFRkL3NvmGaXWBc6N7qJD519EUe6vyNpaEyDe2Ev", "epoch/CbAHBGJ8VQot2m6KhH9PLasMgcDtkPJBfp9bjAEMJ8UK")
	}
	for _, name := range names {
		base := loadInstance(r.Repo, name)
		ks := []int{2}
		if r.Thorough() {
			ks = []int{1, 2, 28}
		}
		for _, k := range ks {
			in := base
			if k < len(base.Proof.Proof.OpeningProof.QueryRoundProofs) {
				in = base.restrict(k)
			}
			for _, wr := range []string{"fixed", "verifier"} {
				if wr == "fixed" && len(in.RawPis) != 16 {
					continue
				}
				c04One(r, in, wr)
				r.Discharge()
			}
		}
	}
	r.Bounds["key_elements"] = "all 17 verifier-key elements (16 cap entries + circuit digest) of every wrapper built from the listed templates"
	r.Bounds["instances"] = "quick: test_circuit k=2, both wrappers; thorough: three templates (two inner circuits), k in {1,2,28}"
	r.Assumptions = append(r.Assumptions,
		"whether a field of the wrapper is a constant, a public input or a secret witness is read from the struct tags of the current tree exactly as gnark's schema walker does",
		"for a secret key element the solver query ranges over the constraints in which the element occurs (everything else free); the reproduced violation is a concrete accepting assignment on the real circuit")
	r.Outside = append(r.Outside, "altered key elements that the FRI queries of the proof at hand do select are rejected only through the hash functions (computational)")
}

func c04One(r *Run, in *instance, wr string) {
	// pinned run: honest values as shadows tell which cap entries the query indices select
	w := walkVerifier(in, walkOpts{Wrapper: wr, Cap: capPlain, Field: true, Pin: true, NoShape: true,
		Extra: map[string]hookFn{}})
	if w.Panic != "" || w.Err != nil {
		walkFailed(r, in, wr, w)
		return
	}
	pinned := w
	// second walk with the hash permutations uninterpreted: the one the queries are generated from
	w = walkVerifier(in, walkOpts{Wrapper: wr, Cap: capPlain, Field: true, PermGL: true, PermBN: true, NoShape: true})
	if w.Panic != "" || w.Err != nil {
		walkFailed(r, in, wr, w)
		return
	}
	// key elements as they appear in the circuit after schema symbolisation
	var vd variables.VerifierOnlyCircuitData
	prefix := ".VerifierData"
	if wr == "fixed" {
		vd = w.FC.VerifierData
	} else {
		vd = w.VC.VerifierData
	}
	type keyEl struct {
		name string
		path string
		v    frontend.Variable
	}
	var keys []keyEl
	for i, c := range vd.ConstantSigmasCap {
		keys = append(keys, keyEl{fmt.Sprintf("cap[%d]", i), fmt.Sprintf("%s.ConstantSigmasCap[%d]", prefix, i), c})
	}
	keys = append(keys, keyEl{"digest", prefix + ".CircuitDigest", vd.CircuitDigest})
	vis := map[*sym.Term]string{}
	leafOf := map[*sym.Term]*leafInfo{}
	for _, l := range w.Leaves {
		vis[l.Atom] = l.Vis
		leafOf[l.Atom] = l
	}
	// which cap slots are selected by the (honest) query indices: evaluate the cap index bits
	selected := map[int]bool{}
	nb := int(in.Common.FriParams.DegreeBits + in.Common.FriParams.Config.RateBits)
	for _, h := range w.E.Hints {
		_ = h
	}
	for _, c := range w.E.Cons {
		_ = c
	}
	// the query indices are the last NumQueryRounds squeezed challenges; recover them from the
	// ToBinary(…,64) bit atoms of the pinned run
	var bitRuns [][]*sym.Term
	var curRun []*sym.Term
	for _, a := range pinned.E.Atoms {
		if a.Kind == "bit" && strings.Contains(a.Site, "verifyQueryRound") {
			curRun = append(curRun, a)
			if len(curRun) == 64 {
				bitRuns = append(bitRuns, curRun)
				curRun = nil
			}
		}
	}
	ch := int(in.Common.FriParams.Config.CapHeight)
	for _, run := range bitRuns {
		idx := 0
		ok := true
		for j := 0; j < ch; j++ {
			b := run[nb-ch+j]
			if b.Shadow == nil {
				ok = false
				break
			}
			idx |= int(b.Shadow.Int64()) << j
		}
		if ok {
			selected[idx] = true
		}
	}
	// every constant in a condition of the circuit (for "does the key reach a condition")
	constVals := map[string]bool{}
	{
		seen := map[*sym.Term]bool{}
		var visit func(t *sym.Term)
		visit = func(t *sym.Term) {
			if t == nil || seen[t] {
				return
			}
			seen[t] = true
			if t.Op == sym.OpConst && t.C != nil {
				constVals[t.C.String()] = true
			}
			for _, a := range t.Args {
				visit(a)
			}
			if t.Def != nil {
				visit(t.Def)
			}
			for _, a := range t.Aux {
				visit(a)
			}
		}
		for _, c := range w.E.Cons {
			visit(c.A)
			visit(c.B)
		}
	}
	nSecret := 0
	var unbound []int
	for ki, k := range keys {
		ki := ki
		k := k
		t := w.E.K(k.v)
		site := fmt.Sprintf("verifier key element is a prover-chosen witness (%s wrapper)", wr)
		bnd := fmt.Sprintf("%s, %s wrapper, key element %s", in.Name, wr, k.name)
		em := sym.NewEmitter()
		switch {
		case t.Op == sym.OpConst:
			// fixed at build time: two builds-from-the-same-template cannot differ
			em.Raw("(declare-const witness_choice Int)")
			em.Assert(fmt.Sprintf("(not (= %s %s))", em.Ref(t), em.Ref(t)))
			r.Add(&Ob{Name: fmt.Sprintf("key-fixed[%s/%s,%s]", in.Name, wr, k.name), Family: "verifier-key-binding", Script: em.String(), Site: site, Bound: bnd + " (compile-time constant)"})
			// ... and it must reach a condition: a cap entry is looked up by the query's cap index in the
			// Merkle check of the constants/sigmas oracle, so its value occurs in that condition
			if ki < len(vd.ConstantSigmasCap) && !constVals[t.C.String()] {
				unbound = append(unbound, ki)
			}
		case t.Op == sym.OpAtom && vis[t] == "public":
			em.Assert(fmt.Sprintf("(not (= %s %s))", em.Ref(t), em.Ref(t)))
			r.Add(&Ob{Name: fmt.Sprintf("key-public[%s/%s,%s]", in.Name, wr, k.name), Family: "verifier-key-binding", Script: em.String(), Site: site, Bound: bnd + " (public input)"})
		default:
			nSecret++
			// secret witness: is it pinned by the constraints it occurs in? Two copies of those
			// constraints, all public atoms shared, everything else free.
			cons := consMentioning(w.E, t)
			sub := map[*sym.Term]*sym.Term{}
			c1 := conj(em, cons)
			for _, a := range em.AtomsSeen {
				if vis[a] != "public" {
					sub[a] = w.E.NamedAtom(a.Name+"_b", a.Kind, a.Hi)
				}
			}
			em2 := em.Fork("b_", sub)
			c2 := conj(em2, cons)
			tb := em2.Ref(sub[t])
			em.Raw(em2.String())
			em.Assert(c1)
			em.Assert(c2)
			em.Assert(fmt.Sprintf("(not (= %s %s))", em.Ref(t), tb))
			idx := -1
			fmt.Sscanf(k.name, "cap[%d]", &idx)
			r.Add(&Ob{Name: fmt.Sprintf("key-determined[%s/%s,%s]", in.Name, wr, k.name), Family: "verifier-key-binding", Script: em.String(), Site: site, Bound: bnd + fmt.Sprintf(" (secret witness; occurs in %d constraints)", len(cons)),
				OnFail: func(res smt.Result) *Violation {
					// concrete witness: an entry that none of the query indices selects
					try := -1
					if idx >= 0 && !selected[idx] {
						try = idx
					} else {
						for i := range vd.ConstantSigmasCap {
							if !selected[i] {
								try = i
								break
							}
						}
					}
					if try < 0 {
						r.Note("%s/%s: every cap entry is selected by some query index; no concrete replay", in.Name, wr)
						return nil
					}
					cr := &circuitReplay{Kind: "circuit", Wrapper: wr, Instance: in.Base, K: in.K, Expect: "accepted",
						Edits: []edit{{Path: fmt.Sprintf(".VerifierData.ConstantSigmasCap[%d]", try), Add: "1"}}}
					acc, msg := runCircuitReplay(cr, r.Repo)
					if !acc {
						r.Note("%s/%s: replay with cap[%d]+1 rejected: %s", in.Name, wr, try, msg)
						return nil
					}
					return &Violation{What: fmt.Sprintf("the %s wrapper takes the inner circuit's verifier key as a secret witness: the honest proof is accepted together with an altered key (constants_sigmas_cap[%d] + 1, an entry no query of this proof selects)", wr, try), Replay: toMap(cr), Outcome: "real circuit (test.IsSolved) accepts the assignment whose verifier data differs from the template"}
				}})
		}
	}
	if len(unbound) > 0 {
		// a wrapper built for a key that differs in exactly the unbound entries must reject the original proof
		cr := &circuitReplay{Kind: "circuit", Wrapper: wr, Instance: in.Base, K: in.K, Expect: "accepted"}
		for _, j := range unbound {
			cr.KeyEdits = append(cr.KeyEdits, keyEdit{Index: j, Add: "1"})
		}
		acc, msg := runCircuitReplay(cr, r.Repo)
		if acc {
			r.addViolationWithReplay(fmt.Sprintf("verifier key element does not reach any condition (%s wrapper)", wr),
				fmt.Sprintf("%s/%s: the constants/sigmas cap entries %v of the verifier key occur in no condition of the circuit; a wrapper built for a key altered in exactly these entries accepts the proof of the original inner circuit", in.Name, wr, unbound),
				toMap(cr), "real circuit built for the altered key (test.IsSolved) accepts the unmodified valid proof")
		} else {
			r.Infra("%s/%s: key elements %v occur in no condition, but the wrapper built for the altered key rejects the honest proof (%s)", in.Name, wr, unbound, short(msg, 80))
		}
	}
	var sel []int
	for i := range vd.ConstantSigmasCap {
		if selected[i] {
			sel = append(sel, i)
		}
	}
	r.Sample(map[string]any{"instance": in.Name, "wrapper": wr, "key_elements": len(keys), "secret_key_elements": nSecret, "cap_slots_selected_by_honest_queries": sel})
	_ = gl.D
	_ = reflect.TypeOf
	_ = big.NewInt
}

// consMentioning returns the constraints whose terms contain t.
func consMentioning(e *sym.Ctx, t *sym.Term) []sym.Constraint {
	memo := map[*sym.Term]bool{}
	var has func(x *sym.Term) bool
	has = func(x *sym.Term) bool {
		if x == t {
			return true
		}
		if v, ok := memo[x]; ok {
			return v
		}
		memo[x] = false
		r := false
		for _, a := range x.Args {
			if has(a) {
				r = true
				break
			}
		}
		memo[x] = r
		return r
	}
	var out []sym.Constraint
	for _, c := range e.Cons {
		if has(c.A) || (c.B != nil && has(c.B)) {
			out = append(out, c)
		}
	}
	return out
}
