package main

import (
	"path/filepath"
	"sync"
	"time"

	"verif/engine/smt"
	"verif/engine/ssax"
)

const repoMod = "github.com/wormhole-foundation/example-near-light-client"

var (
	ssaOnce sync.Once
	ssaProg *ssax.Program
	ssaErr  error
	ssaDur  time.Duration
)

// loadSSA type-checks the repository's packages from the working tree (not the instrumented copy)
// and builds their SSA form; done once per run.
func loadSSA(r *Run) *ssax.Program {
	ssaOnce.Do(func() {
		t0 := time.Now()
		ssaProg, ssaErr = ssax.Load(filepath.Join(r.Repo, "gnark-plonky2-verifier"), repoMod, "./fri", "./variables", "./types", "./goldilocks", "./plonk/gates")
		ssaDur = time.Since(t0)
	})
	if ssaErr != nil {
		r.Infra("cannot load the repository's SSA: %v", ssaErr)
		return nil
	}
	r.Extra["ssa_load_seconds"] = ssaDur.Seconds()
	return ssaProg
}

// newExec makes an executor whose branch feasibility is decided by z3 (bit-vectors).
func newExec(r *Run, p *ssax.Program) *ssax.Exec {
	x := ssax.NewExec(p)
	x.Feasible = func(script string) string {
		res := r.pool.Solve(&smt.Query{Script: script, Solver: "z3", Timeout: 20 * time.Second})
		if res.Status == smt.Unsat {
			return "unsat"
		}
		if res.Status == smt.Sat {
			return "sat"
		}
		return "unknown"
	}
	return x
}
