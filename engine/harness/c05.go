package main

import (
	"fmt"
	"math/big"
	"sort"
	"strings"

	"github.com/consensys/gnark/frontend"
	gl "github.com/wormhole-foundation/example-near-light-client/goldilocks"
	"github.com/wormhole-foundation/example-near-light-client/poseidon"

	"verif/engine/smt"
	"verif/engine/sym"
)

func init() { drivers["C05"] = runC05 }

// instancesFor returns the (restricted) real instances a tier walks.
func instancesFor(r *Run, quickK, thoroughK []int, allInstances bool) []*instance {
	names := []string{"test_circuit"}
	if allInstances || r.Thorough() {
		names = append(names, "random/CGZPhFRkL3NvmGaXWBc6N7qJD519EUe6vyNpaEyDe2Ev")
	}
	if r.Thorough() {
		names = append(names, "test.json", "epoch/CbAHBGJ8VQot2m6KhH9PLasMgcDtkPJBfp9bjAEMJ8UK", "epoch/4RjXBrNcu39wutFTuFpnRHgNqgHxLMcGBKNEQdtkSBhy")
	}
	ks := quickK
	if r.Thorough() {
		ks = thoroughK
	}
	var out []*instance
	for _, n := range names {
		in := loadInstance(r.Repo, n)
		for _, k := range ks {
			if k >= len(in.Proof.Proof.OpeningProof.QueryRoundProofs) {
				out = append(out, in)
			} else {
				out = append(out, in.restrict(k))
			}
		}
	}
	return out
}

// vcObligations turns the deduplicated operand shapes of a field-mode walk into obligations:
// the integer value of every expression handed to a witnessed reduction stays below r (no wrap of
// the BN254 field: the constraint holds over the integers) and below 2^n*p (the honest quotient
// fits its range check); MulAdd/Inverse operands are canonical.
func vcObligations(r *Run, w *walkResult, tag string) (nShapes int) {
	keys := sortedKeys(w.F.vcShapes)
	for i, k := range keys {
		v := w.F.vcShapes[k]
		var goal string
		switch v.Kind {
		case "Reduce":
			lim := new(big.Int).Lsh(P, uint(v.N))
			goal = fmt.Sprintf("(and (<= 0 X) (< X %s) (< X %s))", lim, R)
		case "MulAdd":
			// a*b+c with canonical operands is below p^2 < r and the quotient below p
			goal = fmt.Sprintf("(and (<= 0 X) (< X %s))", new(big.Int).Mul(P, P))
		default:
			continue
		}
		script := v.Script + "\n(assert (not " + goal + "))"
		site := fmt.Sprintf("%s n=%d @ %s", v.Kind, v.N, firstFrame(v.Site))
		vv := v
		r.Add(&Ob{Name: fmt.Sprintf("vc[%s#%d %s/%d x%d]", tag, i, v.Kind, v.N, v.Count), Family: "operand-bound-vc", Script: script, Values: nil, Site: site,
			Bound: "all values of the atoms within their enforced ranges; shape occurs " + fmt.Sprint(v.Count) + " times at " + v.Site,
			OnFail: func(res smt.Result) *Violation {
				// an operand that can exceed the bound: the wrapped quotient/remainder pair is accepted (see the leaf lemma); reported with the site
				return &Violation{What: fmt.Sprintf("operand of %s (n=%d) at %s is not bounded by 2^n*p / r within the enforced ranges", vv.Kind, vv.N, vv.Site), Replay: map[string]any{"kind": "vc", "script": vv.Script}, Outcome: "solver model (bound violated); site-level, no circuit replay"}
			}})
	}
	return len(keys)
}

func firstFrame(site string) string {
	if i := strings.Index(site, " < "); i >= 0 {
		return site[:i]
	}
	return site
}

func sboxLeaf() leaf {
	// the two witnessed reductions inside the S-box are covered by ReduceWithMaxBits[n]; here the
	// composite: for canonical x the accepted output is unique (function-ness of the S-box)
	f := fn[func(*poseidon.GoldilocksChip, gl.Variable) gl.Variable]("poseidon.GoldilocksChip.sBoxMonomial")
	return leaf{name: "sBoxMonomial", gadget: "SBox", ins: []string{"x"}, pre: fmt.Sprintf("(< x %s)", P), sound: true,
		run: func(ch *gl.Chip, in map[string]gl.Variable) []frontend.Variable {
			pc := poseidon.NewGoldilocksChip(cur.Self)
			return []frontend.Variable{f(pc, in["x"]).Limb}
		},
		// x^7 mod p written with the same two-step structure so that the query stays linear in the
		// hint variables: out = (x * ((x^3 mod p)^2)) mod p
		spec: []string{fmt.Sprintf("(mod (* x (* (mod (* x (* x x)) %s) (mod (* x (* x x)) %s))) %s)", P, P, P)},
		site: "sBoxMonomial"}
}

func runC05(r *Run) {
	r.Functions = []string{"goldilocks.(*Chip).MulAdd", "goldilocks.(*Chip).ReduceWithMaxBits", "goldilocks.(*Chip).Reduce", "goldilocks.(*Chip).RangeCheck", "goldilocks.(*Chip).Inverse", "poseidon.(*GoldilocksChip).sBoxMonomial", "verifier.(*VerifierCircuit).Define (site inventory, field mode)", "verifier.(*CircuitFixed).Define (site inventory, field mode)"}
	// ---- (B) inventory of every prover-supplied-value site of the whole verifier -----------------
	widths := map[uint64]int{}
	var invSamples []any
	totalDyn := 0
	nShapes := 0
	for _, in := range instancesFor(r, []int{1, 2}, []int{1, 2, 4, 28}, true) {
		for _, wr := range []string{"verifier", "fixed"} {
			if wr == "fixed" && len(in.RawPis) != 16 {
				continue
			}
			w := walkVerifier(in, walkOpts{Wrapper: wr, Cap: capPlain, Field: true, PermBN: true, PIBits: 64})
			if w.Panic != "" || w.Err != nil {
				walkFailed(r, in, wr, w)
				continue
			}
			for _, s := range w.F.sites {
				if strings.HasPrefix(s.Kind, "Reduce/") {
					widths[s.N] += s.Count
				}
				if s.Kind != "PermBN" {
					totalDyn += s.Count
				}
			}
			nShapes += vcObligations(r, w, in.Name+"/"+wr)
			if len(invSamples) < 4 {
				var top []string
				for _, k := range sortedKeys(w.F.sites) {
					s := w.F.sites[k]
					if s.Count > 500 {
						top = append(top, fmt.Sprintf("%dx %s maxbits=%d @ %s", s.Count, s.Kind, s.MaxBits, firstFrame(s.Site)))
					}
				}
				invSamples = append(invSamples, map[string]any{"walk": w.summary(), "busiest_static_sites": top})
			}
			for f, n := range w.F.flags {
				r.Note("%s/%s: %dx %s", in.Name, wr, n, f)
			}
			r.Discharge()
		}
	}
	for _, s := range invSamples {
		r.Sample(s)
	}
	var ws []uint64
	for n := range widths {
		ws = append(ws, n)
	}
	sort.Slice(ws, func(i, j int) bool { return ws[i] < ws[j] })
	r.Extra["quotient_widths_in_use"] = fmt.Sprint(widths)
	r.Extra["dynamic_hint_sites_walked"] = totalDyn
	r.Extra["distinct_operand_shapes"] = nShapes

	// ---- (A) leaf lemmas: single accepted value at every kind of site, for every width in use -----
	for _, n := range ws {
		gadgetLemma(r, "witnessed-arith", reduceLeaf(n, false))
	}
	for _, lf := range mulAddLeaves()[:1] {
		gadgetLemma(r, "witnessed-arith", lf)
	}
	gadgetLemma(r, "witnessed-arith", inverseLeaf())
	// limb split of the canonical range check: unique
	setHooks(factHooksL0)
	func() {
		api := newAPI(capPlain)
		e := cur
		defer forgetChips()
		chip := newChip(api)
		x := inAtom("x", sym.Rm1)
		chip.RangeCheck(gl.NewVariable(x))
		e.Refine()
		if len(e.Hints) != 1 || len(e.Hints[0].Out) != 2 {
			r.Infra("RangeCheck: expected one limb-split hint, found %d", len(e.Hints))
			return
		}
		em := sym.NewEmitter()
		em.Refined = true
		xs := em.Ref(x)
		em.AssertAll(e)
		hi, lo := em.Ref(e.Hints[0].Out[0]), em.Ref(e.Hints[0].Out[1])
		em.Assert(fmt.Sprintf("(not (and (= %s (div %s 4294967296)) (= %s (mod %s 4294967296)) (< %s %s)))", hi, xs, lo, xs, xs, P))
		r.Add(&Ob{Name: "RangeCheck/limbs-unique", Family: "witnessed-arith-soundness", Script: em.String(), Site: "RangeCheck limbs", Bound: "all x in [0,r)",
			OnFail: func(res smt.Result) *Violation { return nil }})
	}()
	clearHooks()
	// contract prerequisite
	setHooks(factHooksL0)
	rangeLemmas(r, rcConfig{capPlain, false, ""}, []rangeItem{{name: "rangeGL[layered]", bound: P, gadget: "RangeCheck", compl: "direct", body: func(chip *gl.Chip, x gl.Variable) { chip.RangeCheck(x) }}})
	clearHooks()

	r.Bounds["operands"] = "all operand values (symbolic); every quotient width that occurs in the walked circuits"
	r.Bounds["instances"] = "site inventory and operand-shape VCs on the real shapes: quick k in {1,2} query rounds of test_circuit and the 97-input circuit; thorough k in {1,2,4,28} on all five proofs; VerifierCircuit and CircuitFixed"
	r.Assumptions = append(r.Assumptions,
		"range checks inside the gadgets are replaced by their facts (C06, layered lemma re-run here)",
		"public inputs are below 2^64 for the honest-fit (completeness) direction only",
		"operand-bound VCs on the top expression cover its sub-expressions because NoReduce code only adds and multiplies non-negative values (an expression containing a subtraction or a wrap is emitted with exact mod-r semantics instead)")
	r.Outside = append(r.Outside, "common data other than the real shapes (sites are re-inventoried from whatever testdata is in the tree)")
}
