package main

import (
	"fmt"
	"math/big"

	"github.com/consensys/gnark/frontend"
	gl "github.com/wormhole-foundation/example-near-light-client/goldilocks"
	"github.com/wormhole-foundation/example-near-light-client/plonk/gates"
	"github.com/wormhole-foundation/example-near-light-client/poseidon"

	"verif/engine/ref"
)

func init() { drivers["C15"] = runC15 }

func gateWiresNeeded(g *ref.Gate) int {
	switch g.Kind {
	case "RandomAccess":
		return int((2+(uint64(1)<<g.Bits))*g.NumCopies + g.NumExtra + g.Bits*g.NumCopies)
	case "Exponentiation":
		return int(2 + 2*g.PowerBits)
	case "BaseSum":
		return int(1 + g.NumLimbs)
	case "ArithmeticExtension":
		return int(8 * g.NumOps)
	case "Arithmetic":
		return int(4 * g.NumOps)
	case "MulExtension":
		return int(6 * g.NumOps)
	case "Reducing":
		return int(6 + g.NumCoeffs + 2*g.NumCoeffs)
	case "ReducingExtension":
		return int(6 + 4*g.NumCoeffs)
	case "CosetInterpolation":
		np := uint64(1) << g.SubgroupBits
		return int(1 + 2*np + 4 + 4*((np-2)/(g.Degree-1)) + 2)
	}
	return 135
}

func cosetGateSpec(bits, degree uint64) *ref.Gate {
	return &ref.Gate{Kind: "CosetInterpolation", SubgroupBits: bits, Degree: degree, Weights: ref.BarycentricWeights(ref.TwoAdicSubgroup(uint(bits)))}
}

func gateCase(g *ref.Gate, k *ref.GLConsts) fieldCase {
	id := g.ID()
	return fieldCase{name: "gate " + short(id, 70), bound: "all wire, constant and public-input-hash values over GF(p^2) (symbolic canonical coordinates)", build: func(fc *fctx) ([]frontend.Variable, []*ref.N) {
		impl := gates.GateInstanceFromId(id)
		nw := gateWiresNeeded(g)
		if nw < 8 {
			nw = 8
		}
		var wires, consts []gl.QuadraticExtensionVariable
		var rw, rc []ref.E
		for i := 0; i < nw; i++ {
			w, r := fc.qeIn(fmt.Sprintf("w%d", i))
			wires = append(wires, w)
			rw = append(rw, r)
		}
		nc := 4
		if int(g.NumConsts) > nc {
			nc = int(g.NumConsts)
		}
		if int(g.NumExtra) > nc {
			nc = int(g.NumExtra)
		}
		for i := 0; i < nc; i++ {
			c, r := fc.qeIn(fmt.Sprintf("c%d", i))
			consts = append(consts, c)
			rc = append(rc, r)
		}
		var pih poseidon.GoldilocksHashOut
		var rp [4]*ref.N
		for i := range pih {
			pih[i], rp[i] = fc.glIn(fmt.Sprintf("pih%d", i))
		}
		vars := gates.NewEvaluationVars(consts, wires, pih)
		out := impl.EvalUnfiltered(fc.api, fc.chip, *vars)
		want := fc.rb.GateEval(g, k, &ref.GateVars{Consts: rc, Wires: rw, PIH: rp})
		var ov []frontend.Variable
		for _, o := range out {
			ov = append(ov, o[0].Limb, o[1].Limb)
		}
		var rv []*ref.N
		for _, o := range want {
			rv = append(rv, o[0], o[1])
		}
		// evaluating a gate must leave the row as it was (the openings are read again by the gates that
		// follow, by the permutation argument and by the FRI openings): wires and constants are read back
		if len(ov) == len(rv) {
			for i := range wires {
				ov = append(ov, wires[i][0].Limb, wires[i][1].Limb)
				rv = append(rv, rw[i][0], rw[i][1])
			}
			for i := range consts {
				ov = append(ov, consts[i][0].Limb, consts[i][1].Limb)
				rv = append(rv, rc[i][0], rc[i][1])
			}
		}
		return ov, rv
	}}
}

// opaqueGate: a gates.Gate whose constraints are fresh inputs plus the first constant it is
// shown (so that stripping of the selector prefix is observable).
type opaqueGate struct {
	id   string
	vals []gl.QuadraticExtensionVariable
	chip func() *gl.Chip
}

func (g *opaqueGate) Id() string { return g.id }
func (g *opaqueGate) EvalUnfiltered(api frontend.API, glApi *gl.Chip, vars gates.EvaluationVars) []gl.QuadraticExtensionVariable {
	cs := *fieldOf[[]gl.QuadraticExtensionVariable](&vars, "localConstants")
	out := make([]gl.QuadraticExtensionVariable, len(g.vals))
	for i, v := range g.vals {
		out[i] = glApi.AddExtension(v, cs[0])
	}
	return out
}

func filterCase(name string, selIdx []uint64, groups [][2]uint64, nCons []int, numGateConstraints int) fieldCase {
	return fieldCase{name: name, bound: "all gate constraint values, selector and constant openings (symbolic); gates opaque", build: func(fc *fctx) ([]frontend.Variable, []*ref.N) {
		numSel := len(groups)
		var consts []gl.QuadraticExtensionVariable
		var rc []ref.E
		for i := 0; i < numSel+2; i++ {
			c, r := fc.qeIn(fmt.Sprintf("c%d", i))
			consts = append(consts, c)
			rc = append(rc, r)
		}
		var wires []gl.QuadraticExtensionVariable
		var rw []ref.E
		for i := 0; i < 2; i++ {
			w, r := fc.qeIn(fmt.Sprintf("w%d", i))
			wires = append(wires, w)
			rw = append(rw, r)
		}
		var gs []gates.Gate
		var rge []func(v *ref.GateVars) []ref.E
		for gi, n := range nCons {
			og := &opaqueGate{id: fmt.Sprintf("opaque%d", gi)}
			var rvals []ref.E
			for j := 0; j < n; j++ {
				v, r := fc.qeIn(fmt.Sprintf("g%d_%d", gi, j))
				og.vals = append(og.vals, v)
				rvals = append(rvals, r)
			}
			gs = append(gs, og)
			rvals2 := rvals
			rge = append(rge, func(v *ref.GateVars) []ref.E {
				out := make([]ref.E, len(rvals2))
				for i := range rvals2 {
					out[i] = fc.rb.EAdd(rvals2[i], v.Consts[0])
				}
				return out
			})
		}
		var gstart, gend []uint64
		for _, g := range groups {
			gstart = append(gstart, g[0])
			gend = append(gend, g[1])
		}
		si := gates.NewSelectorsInfo(selIdx, gstart, gend)
		chip := gates.NewEvaluateGatesChip(fc.api, gs, uint64(numGateConstraints), *si)
		var pih poseidon.GoldilocksHashOut
		for i := range pih {
			pih[i] = gl.Zero()
		}
		out := chip.EvaluateGateConstraints(*gates.NewEvaluationVars(consts, wires, pih))
		want := fc.rb.EvaluateGateConstraints(rge, selIdx, groups, numGateConstraints, &ref.GateVars{Consts: rc, Wires: rw})
		var ov []frontend.Variable
		for _, o := range out {
			ov = append(ov, o[0].Limb, o[1].Limb)
		}
		var rv []*ref.N
		for _, o := range want {
			rv = append(rv, o[0], o[1])
		}
		return ov, rv
	}}
}

func runC15(r *Run) {
	r.Functions = []string{"gates.(*ArithmeticGate|ArithmeticExtensionGate|MultiplicationExtensionGate|BaseSumGate|ConstantGate|CosetInterpolationGate|ExponentiationGate|NoopGate|PoseidonGate|PoseidonMdsGate|PublicInputGate|RandomAccessGate|ReducingGate|ReducingExtensionGate).EvalUnfiltered", "gates.(*EvaluateGatesChip).{computeFilter,evalFiltered,EvaluateGateConstraints}", "gates.(*EvaluationVars).RemovePrefix", "gates.GateInstanceFromId (used to build every gate from its plonky2 identifier)"}
	k := glConstsFromRepo()
	base := loadInstance(r.Repo, "test_circuit")
	var specs []*ref.Gate
	add := func(g *ref.Gate) { specs = append(specs, g) }
	// the 13 gates of the real circuits
	add(&ref.Gate{Kind: "Noop"})
	add(&ref.Gate{Kind: "Constant", NumConsts: 2})
	add(&ref.Gate{Kind: "PoseidonMds"})
	add(&ref.Gate{Kind: "PublicInput"})
	add(&ref.Gate{Kind: "BaseSum", NumLimbs: 63, Base: 2})
	add(&ref.Gate{Kind: "ReducingExtension", NumCoeffs: 32})
	add(&ref.Gate{Kind: "Reducing", NumCoeffs: 43})
	add(&ref.Gate{Kind: "ArithmeticExtension", NumOps: 10})
	add(&ref.Gate{Kind: "Arithmetic", NumOps: 20})
	add(&ref.Gate{Kind: "MulExtension", NumOps: 13})
	add(&ref.Gate{Kind: "RandomAccess", Bits: 4, NumCopies: 4, NumExtra: 2})
	add(cosetGateSpec(4, 6))
	add(&ref.Gate{Kind: "Poseidon"})
	// the identifiers generated from the specification must be the ones of the real common data
	realIDs := map[string]bool{}
	for _, id := range base.Common.GateIds {
		realIDs[id] = true
	}
	for _, g := range specs {
		if !realIDs[g.ID()] {
			r.Infra("reference identifier %q is not among the gates of the real circuit (reference grammar / barycentric weights differ from plonky2's output)", short(g.ID(), 120))
		}
	}
	// smallest / next parameters of every family
	add(&ref.Gate{Kind: "Constant", NumConsts: 1})
	add(&ref.Gate{Kind: "Arithmetic", NumOps: 1})
	add(&ref.Gate{Kind: "ArithmeticExtension", NumOps: 1})
	add(&ref.Gate{Kind: "MulExtension", NumOps: 1})
	add(&ref.Gate{Kind: "BaseSum", NumLimbs: 1, Base: 2})
	add(&ref.Gate{Kind: "BaseSum", NumLimbs: 3, Base: 4})
	// parameters with two decimal digits where the real circuits have none (a numeral read in another
	// radix, or cut after its first digit, still resolves - to another gate)
	add(&ref.Gate{Kind: "BaseSum", NumLimbs: 64, Base: 2}) // one above what plonky2's default configuration picks
	add(&ref.Gate{Kind: "BaseSum", NumLimbs: 2, Base: 10})
	add(&ref.Gate{Kind: "BaseSum", NumLimbs: 5, Base: 16})
	add(&ref.Gate{Kind: "Constant", NumConsts: 11})
	add(&ref.Gate{Kind: "RandomAccess", Bits: 1, NumCopies: 12, NumExtra: 0})
	add(&ref.Gate{Kind: "RandomAccess", Bits: 2, NumCopies: 1, NumExtra: 10})
	add(&ref.Gate{Kind: "Reducing", NumCoeffs: 1})
	add(&ref.Gate{Kind: "Reducing", NumCoeffs: 2})
	add(&ref.Gate{Kind: "ReducingExtension", NumCoeffs: 1})
	add(&ref.Gate{Kind: "ReducingExtension", NumCoeffs: 2})
	add(&ref.Gate{Kind: "RandomAccess", Bits: 1, NumCopies: 1, NumExtra: 0})
	add(&ref.Gate{Kind: "RandomAccess", Bits: 2, NumCopies: 3, NumExtra: 1})
	add(&ref.Gate{Kind: "Exponentiation", PowerBits: 1})
	add(&ref.Gate{Kind: "Exponentiation", PowerBits: 2})
	add(&ref.Gate{Kind: "Exponentiation", PowerBits: 13})
	add(cosetGateSpec(2, 2))
	add(cosetGateSpec(3, 3))
	add(cosetGateSpec(3, 5)) // last interpolation chunk is cut short
	add(cosetGateSpec(4, 5))
	if r.Thorough() {
		for _, n := range []uint64{2, 3, 7, 19, 20} {
			add(&ref.Gate{Kind: "Arithmetic", NumOps: n})
			add(&ref.Gate{Kind: "ArithmeticExtension", NumOps: n})
			add(&ref.Gate{Kind: "MulExtension", NumOps: n})
		}
		for _, l := range []uint64{2, 16, 31, 63} {
			for _, b := range []uint64{2, 3, 4} {
				add(&ref.Gate{Kind: "BaseSum", NumLimbs: l, Base: b})
			}
		}
		for bits := uint64(1); bits <= 5; bits++ {
			for _, cp := range []uint64{1, 2, 4} {
				add(&ref.Gate{Kind: "RandomAccess", Bits: bits, NumCopies: cp, NumExtra: cp % 3})
			}
		}
		for _, n := range []uint64{3, 8, 33, 66, 67} {
			add(&ref.Gate{Kind: "Exponentiation", PowerBits: n})
		}
		for _, n := range []uint64{3, 21, 42, 43} {
			add(&ref.Gate{Kind: "Reducing", NumCoeffs: n})
			add(&ref.Gate{Kind: "ReducingExtension", NumCoeffs: n})
		}
		for bits := uint64(2); bits <= 4; bits++ {
			for deg := uint64(2); deg <= 6; deg++ {
				// plonky2's CosetInterpolationGate::with_max_degree never chooses a degree above the number
				// of points (from degree = 2^bits on no intermediate value is needed and the first such
				// degree is taken): larger degrees are not identifiers plonky2 emits
				if deg > 1<<bits {
					continue
				}
				add(cosetGateSpec(bits, deg))
			}
		}
		for _, n := range []uint64{3, 4} {
			add(&ref.Gate{Kind: "Constant", NumConsts: n})
		}
	}
	var stats []any
	seen := map[string]bool{}
	for _, g := range specs {
		if seen[g.ID()] {
			continue
		}
		seen[g.ID()] = true
		if q := runFieldCase(r, "gate-polynomials", gateCase(g, k), nil); q != nil && (g.Kind == "Poseidon" || g.Kind == "CosetInterpolation" || len(stats) < 2) {
			stats = append(stats, q.stats())
		}
		r.Discharge()
	}
	// ---- selector filtering and position-wise summation -------------------------------------------
	realSel := *fieldOf[[]uint64](&base.Common.SelectorsInfo, "selectorIndices")
	var realGroups [][2]uint64
	for _, g := range *fieldOf[[]gates.Range](&base.Common.SelectorsInfo, "groups") {
		realGroups = append(realGroups, [2]uint64{*fieldOf[uint64](&g, "start"), *fieldOf[uint64](&g, "end")})
	}
	nReal := make([]int, len(realSel))
	for i := range nReal {
		nReal[i] = 1 + (i*3)%4
	}
	fcs := []fieldCase{
		filterCase("filter[real selector layout, 13 opaque gates]", realSel, realGroups, nReal, 5),
		filterCase("filter[one group, 3 gates]", []uint64{0, 0, 0}, [][2]uint64{{0, 3}}, []int{2, 1, 3}, 3),
		filterCase("filter[two groups]", []uint64{0, 0, 1, 1, 1}, [][2]uint64{{0, 2}, {2, 5}}, []int{1, 2, 2, 1, 3}, 4),
		// groups that hold a single gate (a high-degree gate that cannot share a selector): with more than
		// one group the filter of the lone gate is still (UNUSED - s), with one group it is 1
		filterCase("filter[two groups, the second a single gate]", []uint64{0, 0, 1}, [][2]uint64{{0, 2}, {2, 3}}, []int{1, 2, 2}, 3),
		filterCase("filter[three single-gate groups]", []uint64{0, 1, 2}, [][2]uint64{{0, 1}, {1, 2}, {2, 3}}, []int{2, 1, 1}, 3),
		filterCase("filter[one group, one gate]", []uint64{0}, [][2]uint64{{0, 1}}, []int{2}, 2),
		// the number of selector polynomials is the number of groups in the description (plonky2 strips
		// groups.len() constants), also when the last group has no gate
		// group bounds are read from the description, not derived from one another
		filterCase("filter[two groups, the second starting inside the first]", []uint64{0, 0, 1}, [][2]uint64{{0, 2}, {1, 3}}, []int{1, 2, 2}, 3),
		filterCase("filter[two groups and a third without gates]", []uint64{0, 0, 1}, [][2]uint64{{0, 2}, {2, 3}, {3, 3}}, []int{1, 2, 2}, 3),
	}
	for _, c := range fcs {
		if q := runFieldCase(r, "gate-filters", c, nil); q != nil {
			stats = append(stats, q.stats())
		}
		r.Discharge()
	}
	for _, s := range stats {
		r.Sample(s)
	}
	r.Extra["gate_instances"] = len(seen)
	r.Bounds["values"] = "all wire / constant / public-input-hash values (symbolic)"
	r.Bounds["gates"] = "quick: the 13 gates of the real circuits + smallest and next parameters of each family; thorough: grids over num_ops, limbs x base, bits x copies, power bits, coefficient counts, subgroup bits x degree"
	r.Assumptions = append(r.Assumptions,
		"reference gate polynomials (engine/ref/gates.go) are written from plonky2's eval_unfiltered / compute_filter; their identifier grammar and barycentric weights are validated against the gate list of the real common data",
		"Poseidon tables as in C09; leaf contracts C05-C07; every deferred reduction re-checked as a VC")
	r.Outside = append(r.Outside, "that honestly generated rows satisfy the constraints (a property of plonky2's witness generation, exercised only through the real proofs)", "gate types the verifier does not implement")
	_ = big.NewInt
}
