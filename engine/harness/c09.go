package main

import (
	"fmt"
	"math/big"
	"strings"

	"github.com/consensys/gnark/frontend"
	gl "github.com/wormhole-foundation/example-near-light-client/goldilocks"
	"github.com/wormhole-foundation/example-near-light-client/poseidon"

	"verif/engine/ref"
	"verif/engine/smt"
	"verif/engine/sym"
)

func init() { drivers["C09"] = runC09 }

func fvBig(v frontend.Variable) *big.Int {
	t := sym.NewCtx().K(v)
	return new(big.Int).Mod(t.C, P)
}

// glConstsFromRepo reads the Goldilocks Poseidon tables of the current tree. The reference uses
// the primary tables; the duplicated *_VARS tables are used only by the implementation, so a
// divergence between the copies surfaces as an inequivalence.
func glConstsFromRepo() *ref.GLConsts {
	k := &ref.GLConsts{}
	for _, c := range poseidon.ALL_ROUND_CONSTANTS {
		k.RoundConstants = append(k.RoundConstants, fvBig(c))
	}
	for i := 0; i < 12; i++ {
		k.MDSCirc[i] = fvBig(poseidon.MDS_MATRIX_CIRC[i])
		k.MDSDiag[i] = fvBig(poseidon.MDS_MATRIX_DIAG[i])
		k.FastFirstRC[i] = fvBig(poseidon.FAST_PARTIAL_FIRST_ROUND_CONSTANT[i])
	}
	for i := 0; i < 22; i++ {
		k.FastRC[i] = fvBig(poseidon.FAST_PARTIAL_ROUND_CONSTANTS[i])
		for j := 0; j < 11; j++ {
			k.FastVS[i][j] = fvBig(poseidon.FAST_PARTIAL_ROUND_VS[i][j])
			k.FastWHats[i][j] = fvBig(poseidon.FAST_PARTIAL_ROUND_W_HATS[i][j])
		}
	}
	for i := 0; i < 11; i++ {
		for j := 0; j < 11; j++ {
			k.FastInit[i][j] = fvBig(poseidon.FAST_PARTIAL_ROUND_INITIAL_MATRIX[i][j])
		}
	}
	return k
}

// plonky2's published test vector for the all-zero state (poseidon_goldilocks.rs test_vectors).
var poseidonZeroVector = []string{
	"4330397376401421145", "14124799381142128323", "8742572140681234676", "14345658006221440202", "15524073338516903644", "5091405722150716653",
	"15002163819607624508", "2047012902665707362", "16106391063450633726", "4680844749859802542", "15019775476387350140", "1698615465718385111"}

func runC09(r *Run) {
	r.Functions = []string{"poseidon.(*GoldilocksChip).Poseidon", "poseidon.(*GoldilocksChip).{fullRounds,partialRounds,constantLayer,sBoxLayer,sBoxMonomial,mdsLayer,mdsRowShf,partialFirstConstantLayer,mdsPartialLayerInit,mdsPartialLayerFast}", "poseidon.(*GoldilocksChip).HashNToMNoPad", "poseidon.(*GoldilocksChip).HashNoPad", "poseidon/goldilocks_constants.go (tables)"}
	if len(poseidon.ALL_ROUND_CONSTANTS) != 360 {
		r.Infra("ALL_ROUND_CONSTANTS has %d entries, expected 360", len(poseidon.ALL_ROUND_CONSTANTS))
		return
	}
	k := glConstsFromRepo()
	// ---- self-validation of the reference on the published vector (native evaluation) -------------
	{
		b := ref.NewB()
		var s ref.GLState
		for i := range s {
			s[i] = b.Zero()
		}
		fast := b.GLPermutation(k, s)
		naive := b.GLPermutationNaive(k, s, nil)
		memo := map[*ref.N]*big.Int{}
		for i := 0; i < 12; i++ {
			f := ref.Eval(fast[i], nil, memo).String()
			n := ref.Eval(naive[i], nil, memo).String()
			if f != poseidonZeroVector[i] || n != poseidonZeroVector[i] {
				r.Infra("reference Poseidon (with the tables of the current tree) does not reproduce plonky2's zero-state vector at position %d: fast %s naive %s want %s -- the round constants / MDS tables differ from plonky2's", i, f, n, poseidonZeroVector[i])
			}
		}
	}
	// ---- fast partial rounds == textbook partial rounds (tables consistent with MDS + constants) --
	// Both sides are reference code; the 22 S-box outputs are shared cut variables (their inputs are
	// proved equal first), which makes every comparison a linear identity.
	{
		api := newAPI(capPlain)
		_ = api
		e := cur
		rb := ref.NewB()
		q := newEqCheck(r, "fast-vs-naive-partial-rounds", "poseidon-tables", e, rb)
		q.bound = "all 12 state elements entering the partial rounds (symbolic); S-box outputs as cut variables"
		var s ref.GLState
		for i := range s {
			s[i] = rb.Var(e.NamedAtom(fmt.Sprintf("s%d", i), "input", sym.Pm1), fmt.Sprintf("s%d", i))
		}
		var fastIn, naiveIn [22]*ref.N
		cut := make([]*ref.N, 22)
		for i := range cut {
			cut[i] = rb.Var(e.NamedAtom(fmt.Sprintf("u%d", i), "input", sym.Pm1), fmt.Sprintf("u%d", i))
		}
		fo := rb.GLPartialFastCut(k, s, func(i int, in *ref.N) *ref.N { fastIn[i] = in; return cut[i] })
		no := rb.GLPartialNaiveCut(k, s, func(i int, in *ref.N) *ref.N { naiveIn[i] = in; return cut[i] })
		lin := func(label string, a, b *ref.N) {
			pa, err1 := q.refPoly(a, nil, map[*ref.N]polyT{})
			pb, err2 := q.refPoly(b, nil, map[*ref.N]polyT{})
			if err1 != nil || err2 != nil {
				r.Infra("fast-vs-naive %s: %v %v", label, err1, err2)
				return
			}
			d := polySub(pa, pb)
			K, ok := d.DivisibleBy(P)
			if !ok {
				// not congruent: the tables are inconsistent; let the solver exhibit it
				K = nil
			}
			pe := &pairEmitter{q: q, open: nil, inames: map[*sym.Term]string{}, rnames: map[*ref.N]string{}, decl: map[string]bool{}}
			as, bs := pe.ref(a), pe.ref(b)
			goal := fmt.Sprintf("(= (mod (- %s %s) %s) 0)", as, bs, P)
			if K != nil {
				ks := K.SMT(func(id int) string { return pe.declare(q.byID[id]) })
				goal = fmt.Sprintf("(= (- %s %s) (* %s %s))", as, bs, P, ks)
			}
			r.Add(&Ob{Name: "fast-vs-naive/" + label, Family: "poseidon-tables", Script: pe.sb.String() + "(assert (not " + goal + "))", Site: "fast partial round tables", Solver: "cvc5", Fallback: []string{"z3-new", "z3"}, TO: 20e9,
				Bound: q.bound, OnFail: func(res smt.Result) *Violation {
					return &Violation{What: "the fast partial-round tables (FAST_PARTIAL_*) are not consistent with the MDS matrix and round constants: " + label, Replay: map[string]any{"kind": "vc", "label": label}, Outcome: "solver model for a linear identity over the tables of the current tree"}
				}})
		}
		for i := 0; i < 22; i++ {
			lin(fmt.Sprintf("sbox-input[%d]", i), fastIn[i], naiveIn[i])
		}
		for i := 0; i < 12; i++ {
			lin(fmt.Sprintf("state-after-partial[%d]", i), fo[i], no[i])
		}
		r.Discharge()
	}
	// ---- the in-circuit permutation == reference (field mode, cut-point sweeping) ------------------
	var stats []any
	perm := fieldCase{name: "GL.Poseidon", bound: "all 12 canonical state elements (symbolic)", build: func(fc *fctx) ([]frontend.Variable, []*ref.N) {
		chip := poseidon.NewGoldilocksChip(fc.api)
		var st poseidon.GoldilocksState
		var rs ref.GLState
		for i := range st {
			st[i], rs[i] = fc.glIn(fmt.Sprintf("s%d", i))
		}
		out := chip.Poseidon(st)
		ro := fc.rb.GLPermutation(k, rs)
		var ov []frontend.Variable
		for i := range out {
			ov = append(ov, out[i].Limb)
		}
		return ov, ro[:]
	}}
	permA := perm
	permA.alias = true
	permA.name += " (alias mode)"
	runFieldCase(r, "poseidon-permutation", permA, nil)
	if q := runFieldCase(r, "poseidon-permutation", perm, nil); q != nil {
		stats = append(stats, q.stats())
	}
	r.Discharge()
	// ---- sponge with the permutation uninterpreted ------------------------------------------------
	type lo struct{ n, m int }
	var shapes []lo
	if r.Thorough() {
		for n := 0; n <= 40; n++ {
			shapes = append(shapes, lo{n, 4})
		}
		for m := 1; m <= 12; m++ {
			shapes = append(shapes, lo{5, m}, lo{16, m})
		}
	} else {
		for _, n := range []int{0, 1, 7, 8, 9, 15, 16, 17, 24} {
			shapes = append(shapes, lo{n, 4})
		}
		shapes = append(shapes, lo{3, 1}, lo{3, 8}, lo{3, 9}, lo{3, 12}, lo{16, 12})
	}
	hook := map[string]hookFn{"poseidon.GoldilocksChip.Poseidon": hookPermGL}
	for _, sh := range shapes {
		sh := sh
		c := fieldCase{name: fmt.Sprintf("GL.HashNToMNoPad[n=%d,m=%d]", sh.n, sh.m), bound: fmt.Sprintf("%d canonical inputs, %d outputs, permutation uninterpreted", sh.n, sh.m), build: func(fc *fctx) ([]frontend.Variable, []*ref.N) {
			chip := poseidon.NewGoldilocksChip(fc.api)
			var in []gl.Variable
			var rin []*ref.N
			for i := 0; i < sh.n; i++ {
				v, rv := fc.glIn(fmt.Sprintf("x%d", i))
				in = append(in, v)
				rin = append(rin, rv)
			}
			out := chip.HashNToMNoPad(in, sh.m)
			var ov []frontend.Variable
			for _, o := range out {
				ov = append(ov, o.Limb)
			}
			return ov, fc.rb.GLHashNToMNoPad(fc.rb.GLPermUF(), rin, sh.m)
		}}
		if q := runFieldCase(r, "poseidon-sponge", c, hook); q != nil && len(stats) < 5 {
			stats = append(stats, q.stats())
		}
		if sh.m == 4 {
			// HashNoPad: inputs may be non-canonical (value + k*p); they are reduced first
			c2 := fieldCase{name: fmt.Sprintf("GL.HashNoPad[n=%d]", sh.n), bound: fmt.Sprintf("%d inputs below 2^128 (so every value + k*p that fits), permutation uninterpreted", sh.n), build: func(fc *fctx) ([]frontend.Variable, []*ref.N) {
				chip := poseidon.NewGoldilocksChip(fc.api)
				var in []gl.Variable
				var rin []*ref.N
				for i := 0; i < sh.n; i++ {
					v, rv := fc.input(fmt.Sprintf("x%d", i), "input", new(big.Int).Sub(pow2(128), big.NewInt(1)))
					rv.BigMod = false
					in = append(in, gl.NewVariable(v))
					rin = append(rin, rv)
				}
				out := chip.HashNoPad(in)
				var ov []frontend.Variable
				for _, o := range out {
					ov = append(ov, o.Limb)
				}
				ro := fc.rb.GLHashNoPad(fc.rb.GLPermUF(), rin)
				return ov, ro[:]
			}}
			runFieldCase(r, "poseidon-sponge", c2, hook)
		}
		r.Discharge()
	}
	for _, s := range stats {
		r.Sample(s)
	}
	// ---- function-ness: every witnessed reduction inside one permutation admits one result --------
	// (quotient widths are read from the hint sites the permutation really executes)
	widths := map[uint64]bool{}
	func() {
		setHooks(fieldHooks())
		defer clearHooks()
		api := newAPI(capPlain)
		defer forgetChips()
		w := newFieldRun(cur)
		w.noShapes = true
		chip := poseidon.NewGoldilocksChip(api)
		var st poseidon.GoldilocksState
		for i := range st {
			st[i] = glIn(fmt.Sprintf("s%d", i))
		}
		chip.Poseidon(st)
		for _, s := range w.sites {
			if strings.HasPrefix(s.Kind, "Reduce/") {
				widths[s.N] = true
			}
		}
	}()
	if len(widths) == 0 {
		r.Infra("no witnessed reduction found inside the permutation")
	}
	for n := range widths {
		gadgetLemma(r, "witnessed-arith", reduceLeaf(n, false))
	}
	r.Extra["quotient_widths_inside_permutation"] = fmt.Sprint(widths)
	gadgetLemma(r, "witnessed-arith", mulAddLeaves()[0])
	r.Bounds["values"] = "all canonical state / input values (symbolic)"
	r.Bounds["sponge_shapes"] = fmt.Sprint(shapes)
	r.Assumptions = append(r.Assumptions,
		"leaf gadget contracts from C05-C07; operand bounds of every deferred reduction re-checked as VCs",
		"round constants and MDS circulant/diagonal are shared with the reference (no independent offline source); they are validated by reproducing plonky2's published zero-state vector natively and, much more strongly, by the real proofs verifying; the fast partial-round tables are NOT trusted: they are proved consistent with MDS + round constants",
		"the reference uses the primary tables; the *_VARS duplicates are exercised only by the implementation")
	r.Outside = append(r.Outside, "collision resistance", "sponge input/output lengths other than the listed ones")
	_ = strings.Join
}
