package main

import (
	"encoding/json"
	"fmt"
	gotypes "go/types"
	"math/big"
	"strings"
	"time"

	"github.com/wormhole-foundation/example-near-light-client/fri"
	gl "github.com/wormhole-foundation/example-near-light-client/goldilocks"
	"github.com/wormhole-foundation/example-near-light-client/types"
	"github.com/wormhole-foundation/example-near-light-client/variables"
	"golang.org/x/tools/go/ssa"

	"verif/engine/smt"
	"verif/engine/ssax"
)

func init() { drivers["C20"] = runC20 }

// C20, part 1: fri.validateFriProofShape is executed symbolically from its SSA form. All list
// lengths of the proof, of the oracle list and of the arity list, and all numeric parameters, are
// symbolic; the solver decides every branch. For every path that returns normally the path
// condition must imply plonky2's validate_fri_proof_shape predicate (written independently
// below); for every path that panics the path condition must contradict it.
//
// Part 2 (c20walk.go) runs the real Define of both wrappers on shape-altered templates.
func runC20(r *Run) {
	r.Functions = []string{"fri.validateFriProofShape", "types.(*FriParams).{LdeBits,FinalPolyLen,FinalPolyBits,TotalArities}"}
	p := loadSSA(r)
	if p == nil {
		return
	}
	type bnd struct{ caps, rounds, oracles, steps int }
	grid := []bnd{{2, 2, 2, 2}}
	if r.Thorough() {
		grid = []bnd{{2, 2, 2, 2}, {3, 1, 4, 3}, {1, 3, 1, 1}}
	}
	for _, b := range grid {
		c20Shape(r, p, b.caps, b.rounds, b.oracles, b.steps)
		r.Discharge()
	}
	r.Bounds["validateFriProofShape"] = fmt.Sprintf("list counts that are iterated: commit-phase caps, query rounds, oracles/eval proofs, steps/arity entries up to %v (one more element than the bound is materialised on the proof side so that over-long lists are covered); lengths that are only compared (cap sizes, leaf widths, sibling counts, evaluation counts, final polynomial length) range over all values below 2^32", grid)
	r.Assumptions = append(r.Assumptions,
		"circuit parameters are in the range plonky2 produces: cap_height <= 16, degree_bits <= 40, rate_bits <= 8, every arity <= 8, num_polys < 2^20, sum of arities <= degree_bits (outside it Go's wrap-around and Rust's overflow checks differ; the parameters come from the trusted circuit description)",
		"Go's int is 64 bits")
	c20Walk(r)
	r.Outside = append(r.Outside, "shapes of the lists outside the FRI proof are decided by executing the real Define on altered templates (part 2: the listed alterations of every list on the listed proofs), not by a solver query over all lengths")
}

func z128(s string) string { return "((_ zero_extend 64) " + s + ")" }
func c128(v int) string    { return fmt.Sprintf("(_ bv%d 128)", v) }

func c20Shape(r *Run, p *ssax.Program, bCaps, bRounds, bOracles, bSteps int) {
	f := p.Func(repoMod+"/fri", "validateFriProofShape")
	if f == nil {
		r.addViolationStructural("validateFriProofShape missing", "fri.validateFriProofShape does not exist in the current tree")
		return
	}
	if len(f.Params) != 3 {
		r.Infra("validateFriProofShape has %d parameters, harness expects 3", len(f.Params))
		return
	}
	bound := func(path string, _ gotypes.Type) (int, uint64) {
		switch {
		case strings.HasSuffix(path, ".CommitPhaseMerkleCaps"):
			return bCaps + 1, uint64(bCaps + 1)
		case strings.HasSuffix(path, ".QueryRoundProofs"):
			return bRounds, uint64(bRounds)
		case strings.HasSuffix(path, ".EvalsProofs"):
			return bOracles + 1, uint64(bOracles + 1)
		case strings.HasSuffix(path, ".Steps"):
			return bSteps + 1, uint64(bSteps + 1)
		case strings.HasSuffix(path, ".Oracles"):
			return bOracles, uint64(bOracles)
		case strings.HasSuffix(path, ".ReductionArityBits"):
			return bSteps, uint64(bSteps)
		case strings.HasSuffix(path, ".Batches"), strings.HasSuffix(path, ".Polynomials"):
			return 0, 0
		}
		return 0, 1 << 32 // compared only
	}
	tag := fmt.Sprintf("caps<=%d rounds<=%d oracles<=%d steps<=%d", bCaps, bRounds, bOracles, bSteps)
	var idx map[string]ssax.Val
	mk := func(x *ssax.Exec) (*ssa.Function, []ssax.Val) {
		ix := map[string]ssax.Val{}
		g := &ssax.Gen{X: x, Bound: bound, Index: ix}
		defer func() { idx = ix }()
		proof := g.Make(f.Params[0].Type(), "proof")
		inst := g.Make(f.Params[1].Type(), "instance")
		params := g.Make(f.Params[2].Type(), "params")
		// parameter sanity (see Assumptions)
		le := func(n string, v int) { x.Assume = append(x.Assume, fmt.Sprintf("(bvule %s (_ bv%d 64))", n, v)) }
		le("params.Config.CapHeight", 16)
		le("params.DegreeBits", 40)
		le("params.Config.RateBits", 8)
		sum := c128(0)
		for s := 0; s < bSteps; s++ {
			a := fmt.Sprintf("params.ReductionArityBits!%d", s)
			le(a, 8)
			sum = fmt.Sprintf("(bvadd %s (ite (bvult (_ bv%d 64) params.ReductionArityBits.len) %s %s))", sum, s, z128(a), c128(0))
		}
		x.Assume = append(x.Assume, fmt.Sprintf("(bvule %s %s)", sum, z128("params.DegreeBits")))
		for j := 0; j < bOracles; j++ {
			le(fmt.Sprintf("instance.Oracles!%d.NumPolys", j), 1<<20)
		}
		return f, []ssax.Val{proof, inst, params}
	}
	t0 := time.Now()
	paths, nq := ssax.Explore(16, func() *ssax.Exec { return newExec(r, p) }, mk, 20000)
	// reference predicate (plonky2 fri/validate_shape.rs), 128-bit arithmetic (no wrap-around)
	capH := z128("params.Config.CapHeight")
	lde := fmt.Sprintf("(bvadd %s %s)", z128("params.DegreeBits"), z128("params.Config.RateBits"))
	var conj []string
	imp := func(i int, n string, body string) string {
		return fmt.Sprintf("(=> (bvult (_ bv%d 64) %s) %s)", i, n, body)
	}
	for i := 0; i <= bCaps; i++ {
		conj = append(conj, imp(i, "proof.CommitPhaseMerkleCaps.len", fmt.Sprintf("(= %s (bvshl %s %s))", z128(fmt.Sprintf("proof.CommitPhaseMerkleCaps!%d.len", i)), c128(1), capH)))
	}
	total := c128(0)
	for s := 0; s < bSteps; s++ {
		total = fmt.Sprintf("(bvadd %s (ite (bvult (_ bv%d 64) params.ReductionArityBits.len) %s %s))", total, s, z128(fmt.Sprintf("params.ReductionArityBits!%d", s)), c128(0))
	}
	for q := 0; q < bRounds; q++ {
		rp := fmt.Sprintf("proof.QueryRoundProofs!%d", q)
		var body []string
		body = append(body, fmt.Sprintf("(= %s.InitialTreesProof.EvalsProofs.len instance.Oracles.len)", rp))
		for j := 0; j <= bOracles; j++ {
			ep := fmt.Sprintf("%s.InitialTreesProof.EvalsProofs!%d", rp, j)
			if j >= bOracles {
				body = append(body, imp(j, rp+".InitialTreesProof.EvalsProofs.len", "false"))
				continue
			}
			o := fmt.Sprintf("instance.Oracles!%d", j)
			salt := fmt.Sprintf("(ite (and %s.Blinding params.Hiding) %s %s)", o, c128(4), c128(0))
			body = append(body, imp(j, rp+".InitialTreesProof.EvalsProofs.len", fmt.Sprintf("(and (= %s (bvadd %s %s)) (= (bvadd %s %s) %s))",
				z128(ep+".Elements.len"), z128(o+".NumPolys"), salt, z128(ep+".MerkleProof.Siblings.len"), capH, lde)))
		}
		body = append(body, fmt.Sprintf("(= %s.Steps.len params.ReductionArityBits.len)", rp))
		cw := lde
		for s := 0; s <= bSteps; s++ {
			st := fmt.Sprintf("%s.Steps!%d", rp, s)
			if s >= bSteps {
				body = append(body, imp(s, rp+".Steps.len", "false"))
				continue
			}
			ar := z128(fmt.Sprintf("params.ReductionArityBits!%d", s))
			cw = fmt.Sprintf("(bvsub %s %s)", cw, ar)
			body = append(body, imp(s, rp+".Steps.len", fmt.Sprintf("(and (= %s (bvshl %s %s)) (= (bvadd %s %s) %s))", z128(st+".Evals.len"), c128(1), ar, z128(st+".MerkleProof.Siblings.len"), capH, cw)))
		}
		conj = append(conj, imp(q, "proof.QueryRoundProofs.len", "(and "+strings.Join(body, " ")+")"))
	}
	conj = append(conj, fmt.Sprintf("(= %s (bvshl %s (bvsub %s %s)))", z128("proof.FinalPoly.Coeffs.len"), c128(1), z128("params.DegreeBits"), total))
	refOK := "(and " + strings.Join(conj, "\n  ") + ")"
	// every name the reference uses must exist (guards against a reference that talks about nothing)
	names := []string{}
	for k, v := range idx {
		if t, ok := v.(*ssax.Term); ok && !t.Conc() {
			names = append(names, k)
		}
		if s, ok := v.(*ssax.SliceV); ok && !s.Len.Conc() {
			names = append(names, k+".len")
		}
	}
	kinds := map[string]int{}
	for pi, pa := range paths {
		kinds[pa.Kind]++
		pa := pa
		switch pa.Kind {
		case "return":
			r.Add(&Ob{Name: fmt.Sprintf("shape-sound[%s] path %d", tag, pi), Family: "fri-shape", Script: pa.Script("(not " + refOK + ")"), Site: "validateFriProofShape accepts a wrong shape", Bound: tag, Values: names, TO: 60 * time.Second,
				OnFail: func(res smt.Result) *Violation { return c20ReplayShape(r, res, bCaps, bRounds, bOracles, bSteps, true) }})
		case "panic":
			r.Add(&Ob{Name: fmt.Sprintf("shape-complete[%s] path %d (%s)", tag, pi, short(pa.Msg, 40)), Family: "fri-shape", Script: pa.Script(refOK), Site: "validateFriProofShape refuses a valid shape", Bound: tag, Values: names, TO: 60 * time.Second,
				OnFail: func(res smt.Result) *Violation {
					return c20ReplayShape(r, res, bCaps, bRounds, bOracles, bSteps, false)
				}})
		default:
			r.Infra("validateFriProofShape [%s]: path %d ends with %s: %s", tag, pi, pa.Kind, pa.Msg)
		}
	}
	// vacuity guards: some returning path exists and the reference is satisfiable together with it
	if kinds["return"] == 0 {
		r.Infra("validateFriProofShape [%s]: no returning path found", tag)
	} else {
		var best *ssax.Path
		for i := range paths {
			if paths[i].Kind == "return" && (best == nil || len(paths[i].PC) > len(best.PC)) {
				best = &paths[i]
			}
		}
		r.Add(&Ob{Name: fmt.Sprintf("shape-witness[%s]", tag), Family: "vacuity-guard", Guard: true, Expect: smt.Sat, Script: best.Script(refOK, "(not (= proof.QueryRoundProofs.len (_ bv0 64)))")})
	}
	r.Sample(map[string]any{"function": "fri.validateFriProofShape", "bounds": tag, "paths": len(paths), "by_outcome": kinds, "feasibility_queries": nq, "explore_seconds": time.Since(t0).Seconds()})
}

func mv(res smt.Result, name string) int {
	if v, ok := res.Model[name]; ok && v.IsInt64() {
		return int(v.Int64())
	}
	return 0
}

// c20ReplayShape builds the concrete shape of the model and runs the real function.
func c20ReplayShape(r *Run, res smt.Result, bCaps, bRounds, bOracles, bSteps int, expectPanic bool) *Violation {
	shape := map[string]any{}
	for k, v := range res.Model {
		if v.Sign() != 0 {
			shape[k] = v.String()
		}
	}
	msg := c20RunShape(res.Model)
	if expectPanic && msg == "" {
		return &Violation{What: "validateFriProofShape returns normally for a proof shape that plonky2's validate_fri_proof_shape refuses: " + c20Describe(res), Replay: map[string]any{"kind": "frishape", "model": shape, "expect": "refused"}, Outcome: "real fri.validateFriProofShape returned without panic"}
	}
	if !expectPanic && msg != "" {
		return &Violation{What: "validateFriProofShape refuses a shape that plonky2 accepts (" + short(msg, 80) + "): " + c20Describe(res), Replay: map[string]any{"kind": "frishape", "model": shape, "expect": "accepted"}, Outcome: "real fri.validateFriProofShape panicked: " + short(msg, 120)}
	}
	return nil
}

func c20Describe(res smt.Result) string {
	var parts []string
	for _, k := range []string{"proof.CommitPhaseMerkleCaps.len", "proof.QueryRoundProofs.len", "instance.Oracles.len", "params.ReductionArityBits.len", "params.Config.CapHeight", "params.DegreeBits", "params.Config.RateBits", "proof.FinalPoly.Coeffs.len"} {
		parts = append(parts, fmt.Sprintf("%s=%d", k, mv(res, k)))
	}
	return strings.Join(parts, " ")
}

func c20RunShape(m map[string]*big.Int) string {
	g := func(name string) int {
		if v, ok := m[name]; ok && v.IsInt64() {
			return int(v.Int64())
		}
		return 0
	}
	if g("proof.FinalPoly.Coeffs.len") > 1<<22 {
		return "replay skipped: list too long to allocate"
	}
	proof := &variables.FriProof{}
	for i := 0; i < g("proof.CommitPhaseMerkleCaps.len"); i++ {
		n := g(fmt.Sprintf("proof.CommitPhaseMerkleCaps!%d.len", i))
		if n > 1<<22 {
			return "replay skipped: list too long to allocate"
		}
		proof.CommitPhaseMerkleCaps = append(proof.CommitPhaseMerkleCaps, make(variables.FriMerkleCap, n))
	}
	mkN := func(n int) int {
		if n > 1<<22 {
			panic("replay skipped: list too long to allocate")
		}
		return n
	}
	var out string
	func() {
		defer func() {
			if e := recover(); e != nil {
				out = fmt.Sprint(e)
			}
		}()
		for q := 0; q < g("proof.QueryRoundProofs.len"); q++ {
			rp := fmt.Sprintf("proof.QueryRoundProofs!%d", q)
			var rd variables.FriQueryRound
			for j := 0; j < g(rp+".InitialTreesProof.EvalsProofs.len"); j++ {
				ep := fmt.Sprintf("%s.InitialTreesProof.EvalsProofs!%d", rp, j)
				var e variables.FriEvalProof
				e.Elements = make([]gl.Variable, mkN(g(ep+".Elements.len")))
				e.MerkleProof.Siblings = make(variables.FriMerkleCap, mkN(g(ep+".MerkleProof.Siblings.len")))
				rd.InitialTreesProof.EvalsProofs = append(rd.InitialTreesProof.EvalsProofs, e)
			}
			for s := 0; s < g(rp+".Steps.len"); s++ {
				st := fmt.Sprintf("%s.Steps!%d", rp, s)
				var e variables.FriQueryStep
				e.Evals = make([]gl.QuadraticExtensionVariable, mkN(g(st+".Evals.len")))
				e.MerkleProof.Siblings = make(variables.FriMerkleCap, mkN(g(st+".MerkleProof.Siblings.len")))
				rd.Steps = append(rd.Steps, e)
			}
			proof.QueryRoundProofs = append(proof.QueryRoundProofs, rd)
		}
		proof.FinalPoly.Coeffs = make([]gl.QuadraticExtensionVariable, mkN(g("proof.FinalPoly.Coeffs.len")))
	}()
	if out != "" {
		return out
	}
	var inst fri.InstanceInfo
	for j := 0; j < g("instance.Oracles.len"); j++ {
		inst.Oracles = append(inst.Oracles, fri.OracleInfo{NumPolys: uint64(g(fmt.Sprintf("instance.Oracles!%d.NumPolys", j))), Blinding: g(fmt.Sprintf("instance.Oracles!%d.Blinding", j)) != 0})
	}
	params := &types.FriParams{Hiding: g("params.Hiding") != 0, DegreeBits: uint64(g("params.DegreeBits"))}
	params.Config.CapHeight = uint64(g("params.Config.CapHeight"))
	params.Config.RateBits = uint64(g("params.Config.RateBits"))
	for s := 0; s < g("params.ReductionArityBits.len"); s++ {
		params.ReductionArityBits = append(params.ReductionArityBits, uint64(g(fmt.Sprintf("params.ReductionArityBits!%d", s))))
	}
	clearHooks()
	return catchPanic(func() {
		fn[func(*variables.FriProof, fri.InstanceInfo, *types.FriParams)]("fri.validateFriProofShape")(proof, inst, params)
	})
}

func init() {
	replayKinds["frishape"] = func(prop, path string, raw json.RawMessage, repo string) int {
		var c struct {
			Model  map[string]string `json:"model"`
			Expect string            `json:"expect"`
		}
		json.Unmarshal(raw, &c)
		m := map[string]*big.Int{}
		for k, v := range c.Model {
			b, _ := new(big.Int).SetString(v, 10)
			m[k] = b
		}
		msg := c20RunShape(m)
		fmt.Printf("replay %s: fri.validateFriProofShape on the recorded shape -> %q (the reference says: %s)\n", prop, msg, c.Expect)
		if (msg == "") != (c.Expect == "accepted") {
			fmt.Printf("VIOLATION property=%s replay=%s\n", prop, path)
			return 1
		}
		fmt.Println("not reproduced on the current tree")
		return 0
	}
	replayKinds["gateid"] = func(prop, path string, raw json.RawMessage, repo string) int {
		var c struct {
			ID string `json:"id"`
		}
		json.Unmarshal(raw, &c)
		out := probeGateID(c.ID)
		fmt.Printf("replay %s: gates.GateInstanceFromId(%q) -> %s\n", prop, c.ID, out)
		fmt.Println("the recorded identifier is the solver's witness; whether it is a violation depends on the obligation it came from (see the 'what' field): re-run the check")
		return 2
	}
}
