package main

import (
	"github.com/consensys/gnark-crypto/ecc"
	"bytes"
	"encoding/json"
	"fmt"
	gotypes "go/types"
	"math/big"
	"math/rand"
	"os"
	"path/filepath"
	"reflect"
	"strings"

	"github.com/consensys/gnark/frontend"
	"github.com/wormhole-foundation/example-near-light-client/types"
	"github.com/wormhole-foundation/example-near-light-client/variables"
	"golang.org/x/tools/go/ssa"

	"verif/engine/ssax"
)

// Concrete side of C19. Two purposes:
//  (a) validation of the encoding: the repository's own proof files are pushed through the real
//      functions and through the SSA executor (run on concrete values); the results must agree;
//  (b) the part the executor cannot reach (encoding/json with the struct tags and the two custom
//      UnmarshalJSON methods, big.Int parsing, gnark's witness construction) is exercised on the
//      real files, on value-randomised copies and on single-value corruptions. These runs confirm
//      the contracts the symbolic part assumes for its stubs; a disagreement is a reproduced
//      violation, but their passing is not a solver verdict and is reported as such.

// toVal converts a concrete Go value into an executor value of Go type t.
func toVal(v reflect.Value, t gotypes.Type) ssax.Val {
	switch u := t.Underlying().(type) {
	case *gotypes.Basic:
		switch v.Kind() {
		case reflect.String:
			return ssax.Str(v.String())
		case reflect.Bool:
			return ssax.Bool(v.Bool())
		case reflect.Uint64, reflect.Uint, reflect.Uint32, reflect.Uint8, reflect.Uint16:
			w := 64
			switch u.Kind() {
			case gotypes.Uint32:
				w = 32
			case gotypes.Uint8:
				w = 8
			case gotypes.Uint16:
				w = 16
			}
			return ssax.BVu(w, v.Uint())
		case reflect.Int, reflect.Int64:
			return ssax.BV(64, big.NewInt(v.Int()))
		}
	case *gotypes.Struct:
		s := &ssax.StructV{F: make([]ssax.Val, u.NumFields())}
		for i := range s.F {
			s.F[i] = toVal(v.Field(i), u.Field(i).Type())
		}
		return s
	case *gotypes.Slice:
		if v.IsNil() {
			return &ssax.SliceV{Len: ssax.BVu(64, 0)}
		}
		b := &ssax.Backing{ElemT: u.Elem()}
		for i := 0; i < v.Len(); i++ {
			b.Cells = append(b.Cells, &ssax.Cell{V: toVal(v.Index(i), u.Elem())})
		}
		return &ssax.SliceV{B: b, Len: ssax.BVu(64, uint64(v.Len())), Cap: v.Len()}
	case *gotypes.Array:
		a := &ssax.ArrayV{}
		for i := 0; i < v.Len(); i++ {
			a.E = append(a.E, toVal(v.Index(i), u.Elem()))
		}
		return a
	}
	panic(fmt.Sprintf("toVal: %s / %s", v.Kind(), t))
}

// canonVal renders an executor value in the format of canon.
func canonVal(x *ssax.Exec, v ssax.Val, t gotypes.Type, sb *strings.Builder) {
	switch a := v.(type) {
	case *ssax.Term:
		if !a.Conc() {
			sb.WriteString("<symbolic>")
			return
		}
		if a.W == 0 {
			fmt.Fprint(sb, a.IsTrue())
			return
		}
		sb.WriteString(a.K.String())
	case *ssax.StrV:
		if a.K == nil {
			sb.WriteString("<opaque string>")
			return
		}
		fmt.Fprintf(sb, "%q", *a.K)
	case *ssax.IfaceV:
		if a.T == nil {
			sb.WriteString("nil")
			return
		}
		canonVal(x, a.V, a.T, sb)
	case *ssax.Opaque:
		if b, known, isNil := bigOf(a); known {
			if isNil {
				sb.WriteString("nil")
			} else {
				sb.WriteString(new(big.Int).Mod(b, R).String())
			}
			return
		}
		sb.WriteString("<" + a.Tag + ">")
	case *ssax.StructV:
		st := t.Underlying().(*gotypes.Struct)
		sb.WriteString("{")
		for i := range a.F {
			sb.WriteString(st.Field(i).Name() + ":")
			canonVal(x, a.F[i], st.Field(i).Type(), sb)
			sb.WriteString(" ")
		}
		sb.WriteString("}")
	case *ssax.ArrayV:
		sb.WriteString("[")
		for i := range a.E {
			canonVal(x, a.E[i], t.Underlying().(*gotypes.Array).Elem(), sb)
			sb.WriteString(" ")
		}
		sb.WriteString("]")
	case *ssax.SliceV:
		sb.WriteString("[")
		if a.Len.Conc() {
			for i := 0; i < a.Len.Int(); i++ {
				canonVal(x, a.B.Cells[a.Off+i].V, t.Underlying().(*gotypes.Slice).Elem(), sb)
				sb.WriteString(" ")
			}
		} else {
			sb.WriteString("<symbolic length>")
		}
		sb.WriteString("]")
	case *ssax.PtrV:
		if a.IsNil() {
			sb.WriteString("nil")
			return
		}
		canonVal(x, x.Load(a), t.Underlying().(*gotypes.Pointer).Elem(), sb)
	case *ssax.TupleV:
		for _, e := range a.E {
			canonVal(x, e, nil, sb)
		}
	default:
		fmt.Fprintf(sb, "<%T>", v)
	}
}

// bigOf evaluates an opaque big-integer value whose arguments are concrete.
func bigOf(v ssax.Val) (b *big.Int, known, isNil bool) {
	a, ok := v.(*ssax.Opaque)
	if !ok {
		return nil, false, false
	}
	switch {
	case strings.HasPrefix(a.Tag, "big.SetString/base") && len(a.Args) == 1:
		var base int
		fmt.Sscanf(a.Tag, "big.SetString/base%d", &base)
		if s, ok := a.Args[0].(*ssax.StrV); ok && s.K != nil {
			if b, ok := new(big.Int).SetString(*s.K, base); ok {
				return b, true, false
			}
			return nil, true, true
		}
	case a.Tag == "ecc.BaseField" || a.Tag == "ecc.ScalarField":
		if id, ok := a.Args[0].(*ssax.Term); ok && id.Conc() {
			if a.Tag == "ecc.BaseField" {
				return ecc.ID(id.Int()).BaseField(), true, false
			}
			return ecc.ID(id.Int()).ScalarField(), true, false
		}
	case a.Tag == "big.Mod" && len(a.Args) == 2:
		x, k1, n1 := bigOf(a.Args[0])
		m, k2, n2 := bigOf(a.Args[1])
		if k1 && k2 && !n1 && !n2 && m.Sign() != 0 {
			return new(big.Int).Mod(x, m), true, false
		}
	}
	return nil, false, false
}

type witnessProbe struct {
	X frontend.Variable
}

func (c *witnessProbe) Define(api frontend.API) error { api.AssertIsEqual(c.X, c.X); return nil }

func c19Concrete(r *Run, c *c19env) {
	vp, tp := repoMod+"/variables", repoMod+"/types"
	paths := instancePaths(r.Repo)
	names := []string{"test_circuit"}
	if r.Thorough() {
		names = []string{"test_circuit", "test.json", "random/CGZPhFRkL3NvmGaXWBc6N7qJD519EUe6vyNpaEyDe2Ev", "epoch/CbAHBGJ8VQot2m6KhH9PLasMgcDtkPJBfp9bjAEMJ8UK", "epoch/4RjXBrNcu39wutFTuFpnRHgNqgHxLMcGBKNEQdtkSBhy"}
	}
	agree, docs := 0, 0
	viol := func(site, what string, replay map[string]any) {
		r.addViolationWithReplay(site, what, replay, "real reading / deserialisation functions run on the document")
	}
	for _, nm := range names {
		pp := paths[nm]
		// ---- (a) executor vs real function on the real file
		raw := types.ReadProofWithPublicInputs(pp[0])
		realOut, realPis := variables.DeserializeProofWithPublicInputs(raw)
		want := canon(realOut) + canon(realPis)
		if f := c.p.Func(vp, "DeserializeProofWithPublicInputs"); f != nil {
			x := c.exec()
			x.MaxSteps = 200000000
			var got strings.Builder
			ps, _ := ssax.ExploreWith(1, func() *ssax.Exec { return x }, func(x *ssax.Exec) (*ssa.Function, []ssax.Val, func(ssax.Val) any) {
				return f, []ssax.Val{toVal(reflect.ValueOf(raw), f.Params[0].Type())}, func(ret ssax.Val) any {
					t := ret.(*ssax.TupleV)
					canonVal(x, t.E[0], f.Signature.Results().At(0).Type(), &got)
					canonVal(x, t.E[1], f.Signature.Results().At(1).Type(), &got)
					return nil
				}
			}, 4)
			if len(ps) != 1 || ps[0].Kind != "return" {
				r.Infra("encoding validation: executor run of DeserializeProofWithPublicInputs on %s: %d paths, first %s %s", nm, len(ps), ps[0].Kind, ps[0].Msg)
			} else if got.String() != want {
				r.Infra("encoding validation FAILED on %s: the SSA executor and the real DeserializeProofWithPublicInputs disagree (executor %s / real %s)", nm, short(got.String(), 120), short(want, 120))
			} else {
				agree++
			}
		}
		// common data through the executor (json.Unmarshal stub filled with what the real decoder produced)
		if f := c.p.Func(tp, "ReadCommonCircuitData"); f != nil {
			var rawC types.CommonCircuitDataRaw
			b, _ := os.ReadFile(pp[2])
			if err := json.Unmarshal(b, &rawC); err == nil {
				x := c.exec()
				nilErr := &ssax.IfaceV{}
				x.Stubs["os.Open"] = func(x *ssax.Exec, a []ssax.Val, call *ssa.CallCommon) ssax.Val {
					return &ssax.TupleV{E: []ssax.Val{&ssax.Opaque{Tag: "os.File"}, nilErr}}
				}
				x.Stubs["(*os.File).Close"] = func(x *ssax.Exec, a []ssax.Val, call *ssa.CallCommon) ssax.Val { return nilErr }
				x.Stubs["io.ReadAll"] = func(x *ssax.Exec, a []ssax.Val, call *ssa.CallCommon) ssax.Val {
					return &ssax.TupleV{E: []ssax.Val{&ssax.SliceV{Len: ssax.BVu(64, 0)}, nilErr}}
				}
				x.Stubs["encoding/json.Unmarshal"] = func(x *ssax.Exec, a []ssax.Val, call *ssa.CallCommon) ssax.Val {
					iv := a[1].(*ssax.IfaceV)
					x.Store(iv.V.(*ssax.PtrV), toVal(reflect.ValueOf(rawC), iv.T.Underlying().(*gotypes.Pointer).Elem()))
					return nilErr
				}
				var got strings.Builder
				ps, _ := ssax.ExploreWith(1, func() *ssax.Exec { return x }, func(x *ssax.Exec) (*ssa.Function, []ssax.Val, func(ssax.Val) any) {
					return f, []ssax.Val{ssax.Str(pp[2])}, func(ret ssax.Val) any {
						canonVal(x, ret, f.Signature.Results().At(0).Type(), &got)
						return nil
					}
				}, 4)
				wantC := canon(types.ReadCommonCircuitData(pp[2]))
				if len(ps) != 1 || ps[0].Kind != "return" {
					r.Infra("encoding validation: executor run of ReadCommonCircuitData on %s: %s %s", nm, ps[0].Kind, ps[0].Msg)
				} else if got.String() != wantC {
					r.Infra("encoding validation FAILED on %s: the SSA executor and the real ReadCommonCircuitData disagree (executor %s / real %s)", nm, short(got.String(), 200), short(wantC, 200))
				} else {
					agree++
				}
			}
		}
		// ---- (b) document level: the real reader against an independent reading of the JSON text
		b, err := os.ReadFile(pp[0])
		if err != nil {
			r.Infra("%v", err)
			continue
		}
		rng := rand.New(rand.NewSource(r.Seed + int64(len(nm))))
		variants := 1
		if r.Thorough() {
			variants = 3
		}
		for v := 0; v <= variants; v++ {
			var doc any
			dec := json.NewDecoder(bytes.NewReader(b))
			dec.UseNumber()
			if err := dec.Decode(&doc); err != nil {
				r.Infra("%v", err)
				break
			}
			if v > 0 {
				doc = randomiseDoc(doc, rng)
			}
			text, _ := json.Marshal(doc)
			wantP, err := refReadProof(doc)
			if err != nil {
				r.Infra("reference reader: %v", err)
				break
			}
			var gotS string
			msg := catchPanic(func() {
				o, pis := variables.DeserializeProofWithPublicInputs(types.ReadProofWithPublicInputsFromRequest(text))
				gotS = canon(o) + canon(pis)
				// the path-based reader must agree with the request-based one
				tmp := filepath.Join(r.Scratch, "c19_doc.json")
				os.WriteFile(tmp, text, 0o644)
				o2, pis2 := variables.DeserializeProofWithPublicInputs(types.ReadProofWithPublicInputs(tmp))
				if g2 := canon(o2) + canon(pis2); g2 != gotS {
					gotS = g2
				}
			})
			docs++
			if msg != "" || gotS != wantP {
				pth := filepath.Join(r.outDir(), "replays", "C19", fmt.Sprintf("doc_%s_%d.json", sanitizePath(nm), v))
				os.MkdirAll(filepath.Dir(pth), 0o755)
				os.WriteFile(pth, text, 0o644)
				viol("document reading: position faithfulness", fmt.Sprintf("%s (variant %d): reading the document with the real functions does not give the document's values at their positions: %s", nm, v, short(firstDiff(gotS, wantP)+msg, 240)), map[string]any{"kind": "document", "file": pth})
				break
			}
		}
	}
	r.Extra["encoding_validation_agreements"] = agree
	r.Extra["documents_read_concretely"] = docs
	// ---- (b) single-value corruptions on the small real file
	corr := c19Corruptions(r, paths["test_circuit"][0])
	corr += c19CorruptOther(r, paths["test_circuit"][1], paths["test_circuit"][2])
	r.Extra["corruptions_confirmed_refused"] = corr
	// gnark refuses a nil *big.Int when the assignment becomes a witness (contract of the SetString stub)
	_, werr := frontend.NewWitness(&witnessProbe{X: (*big.Int)(nil)}, R)
	if werr == nil {
		r.Infra("gnark accepts a nil *big.Int in an assignment: the refusal of malformed hash strings at witness time does not hold in this gnark version")
	}
	r.Sample(map[string]any{"concrete_validation": map[string]any{"executor_agrees_with_real_functions_on": agree, "documents_read": docs, "corruptions_refused": corr, "nil_bigint_refused_by_gnark": werr != nil}})
}

func firstDiff(a, b string) string {
	n := len(a)
	if len(b) < n {
		n = len(b)
	}
	for i := 0; i < n; i++ {
		if a[i] != b[i] {
			lo := i - 60
			if lo < 0 {
				lo = 0
			}
			return fmt.Sprintf("at byte %d: real ...%s / prescribed ...%s", i, short(a[lo:], 140), short(b[lo:], 140))
		}
	}
	return fmt.Sprintf("lengths %d / %d", len(a), len(b))
}

// randomiseDoc replaces every number by a random 64-bit value and every numeric string by a random
// decimal numeral (same shape): mostly below the BN254 scalar modulus, one in eight anywhere below 2^256.
func randomiseDoc(d any, rng *rand.Rand) any {
	switch v := d.(type) {
	case map[string]any:
		o := map[string]any{}
		for k, e := range v {
			o[k] = randomiseDoc(e, rng)
		}
		return o
	case []any:
		o := make([]any, len(v))
		for i := range v {
			o[i] = randomiseDoc(v[i], rng)
		}
		return o
	case json.Number:
		x := rng.Uint64()
		if rng.Intn(8) == 0 {
			x = ^uint64(0) - uint64(rng.Intn(3))
		}
		return json.Number(fmt.Sprint(x))
	case string:
		b := new(big.Int).Rand(rng, R)
		// one in eight is a numeral above the scalar modulus (window [r, 2^256)): only its residue counts
		if rng.Intn(8) == 0 {
			b = new(big.Int).Rand(rng, new(big.Int).Lsh(big.NewInt(1), 256))
		}
		return b.String()
	}
	return d
}

// refReadProof reads the generic JSON document following plonky2's serialisation of
// ProofWithPublicInputs and renders the prescribed result in canon form.
func refReadProof(doc any) (s string, err error) {
	defer func() {
		if e := recover(); e != nil {
			err = fmt.Errorf("document does not have the plonky2 proof layout: %v", e)
		}
	}()
	obj := func(x any, k string) any { return x.(map[string]any)[k] }
	list := func(x any) []any {
		if x == nil {
			return nil
		}
		return x.([]any)
	}
	u64 := func(x any) uint64 {
		b, ok := new(big.Int).SetString(string(x.(json.Number)), 10)
		if !ok || !b.IsUint64() {
			panic("not a 64-bit number: " + string(x.(json.Number)))
		}
		return b.Uint64()
	}
	u64s := func(x any) []uint64 {
		var o []uint64
		for _, e := range list(x) {
			o = append(o, u64(e))
		}
		return o
	}
	pairs := func(x any) [][]uint64 {
		var o [][]uint64
		for _, e := range list(x) {
			o = append(o, u64s(e))
		}
		return o
	}
	strs := func(x any) []string {
		var o []string
		for _, e := range list(x) {
			o = append(o, e.(string))
		}
		return o
	}
	var o variables.ProofWithPublicInputs
	p := obj(doc, "proof")
	o.Proof.WiresCap = refHashes(strs(obj(p, "wires_cap")))
	o.Proof.PlonkZsPartialProductsCap = refHashes(strs(obj(p, "plonk_zs_partial_products_cap")))
	o.Proof.QuotientPolysCap = refHashes(strs(obj(p, "quotient_polys_cap")))
	op := obj(p, "openings")
	o.Proof.Openings = variables.OpeningSet{Constants: refQEs(pairs(obj(op, "constants"))), PlonkSigmas: refQEs(pairs(obj(op, "plonk_sigmas"))), Wires: refQEs(pairs(obj(op, "wires"))), PlonkZs: refQEs(pairs(obj(op, "plonk_zs"))),
		PlonkZsNext: refQEs(pairs(obj(op, "plonk_zs_next"))), PartialProducts: refQEs(pairs(obj(op, "partial_products"))), QuotientPolys: refQEs(pairs(obj(op, "quotient_polys")))}
	fp := obj(p, "opening_proof")
	for _, c := range list(obj(fp, "commit_phase_merkle_caps")) {
		o.Proof.OpeningProof.CommitPhaseMerkleCaps = append(o.Proof.OpeningProof.CommitPhaseMerkleCaps, refHashes(strs(c)))
	}
	for _, q := range list(obj(fp, "query_round_proofs")) {
		var rd variables.FriQueryRound
		for _, e := range list(obj(obj(q, "initial_trees_proof"), "evals_proofs")) {
			tup := list(e)
			var ep variables.FriEvalProof
			ep.Elements = refVars(u64s(tup[0]))
			ep.MerkleProof.Siblings = refHashes(strs(obj(tup[1], "siblings")))
			rd.InitialTreesProof.EvalsProofs = append(rd.InitialTreesProof.EvalsProofs, ep)
		}
		for _, st := range list(obj(q, "steps")) {
			var s variables.FriQueryStep
			s.Evals = refQEs(pairs(obj(st, "evals")))
			s.MerkleProof.Siblings = refHashes(strs(obj(obj(st, "merkle_proof"), "siblings")))
			rd.Steps = append(rd.Steps, s)
		}
		o.Proof.OpeningProof.QueryRoundProofs = append(o.Proof.OpeningProof.QueryRoundProofs, rd)
	}
	o.Proof.OpeningProof.FinalPoly.Coeffs = refQEs(pairs(obj(obj(fp, "final_poly"), "coeffs")))
	o.Proof.OpeningProof.PowWitness = refVar(u64(obj(fp, "pow_witness")))
	pis := u64s(obj(doc, "public_inputs"))
	o.PublicInputs = refVars(pis)
	return canon(o) + canon(pis), nil
}

// c19Corruptions applies single-value corruptions to the real document; each must be refused by the
// reading functions or (hash strings) at witness construction.
func c19Corruptions(r *Run, path string) int {
	b, err := os.ReadFile(path)
	if err != nil {
		r.Infra("%v", err)
		return 0
	}
	type edit struct {
		where string
		apply func(doc map[string]any, bad any)
		str   bool
		pair  bool // the whole two-number list of an extension value is replaced
	}
	p := func(d map[string]any) map[string]any { return d["proof"].(map[string]any) }
	fp := func(d map[string]any) map[string]any { return p(d)["opening_proof"].(map[string]any) }
	q0 := func(d map[string]any) map[string]any { return fp(d)["query_round_proofs"].([]any)[0].(map[string]any) }
	edits := []edit{
		{"public_inputs[0]", func(d map[string]any, bad any) { d["public_inputs"].([]any)[0] = bad }, false, false},
		{"openings.wires[0][1]", func(d map[string]any, bad any) {
			p(d)["openings"].(map[string]any)["wires"].([]any)[0].([]any)[1] = bad
		}, false, false},
		{"pow_witness", func(d map[string]any, bad any) { fp(d)["pow_witness"] = bad }, false, false},
		{"final_poly.coeffs[0][0]", func(d map[string]any, bad any) {
			fp(d)["final_poly"].(map[string]any)["coeffs"].([]any)[0].([]any)[0] = bad
		}, false, false},
		{"evals_proofs[0] leaf[0]", func(d map[string]any, bad any) {
			q0(d)["initial_trees_proof"].(map[string]any)["evals_proofs"].([]any)[0].([]any)[0].([]any)[0] = bad
		}, false, false},
		{"steps[0].evals[0][0]", func(d map[string]any, bad any) {
			q0(d)["steps"].([]any)[0].(map[string]any)["evals"].([]any)[0].([]any)[0] = bad
		}, false, false},
		{"openings.wires[1] (the pair)", func(d map[string]any, bad any) { p(d)["openings"].(map[string]any)["wires"].([]any)[1] = bad }, false, true},
		{"openings.plonk_zs_next[1] (the pair)", func(d map[string]any, bad any) { p(d)["openings"].(map[string]any)["plonk_zs_next"].([]any)[1] = bad }, false, true},
		{"final_poly.coeffs[1] (the pair)", func(d map[string]any, bad any) { fp(d)["final_poly"].(map[string]any)["coeffs"].([]any)[1] = bad }, false, true},
		{"steps[0].evals[1] (the pair)", func(d map[string]any, bad any) { q0(d)["steps"].([]any)[0].(map[string]any)["evals"].([]any)[1] = bad }, false, true},
		{"wires_cap[0]", func(d map[string]any, bad any) { p(d)["wires_cap"].([]any)[0] = bad }, true, false},
		{"evals_proofs[0] siblings[0]", func(d map[string]any, bad any) {
			q0(d)["initial_trees_proof"].(map[string]any)["evals_proofs"].([]any)[0].([]any)[1].(map[string]any)["siblings"].([]any)[0] = bad
		}, true, false},
		{"steps[0] siblings[0]", func(d map[string]any, bad any) {
			q0(d)["steps"].([]any)[0].(map[string]any)["merkle_proof"].(map[string]any)["siblings"].([]any)[0] = bad
		}, true, false},
		{"commit_phase_merkle_caps[0][0]", func(d map[string]any, bad any) {
			fp(d)["commit_phase_merkle_caps"].([]any)[0].([]any)[0] = bad
		}, true, false},
	}
	numBad := []struct {
		n string
		v any
	}{{"negative", json.Number("-5")}, {"fractional", json.Number("1.5")}, {"over 64 bits", json.Number("18446744073709551616")}, {"over 64 bits, 20 digits (3*10^19)", json.Number("30000000000000000000")}, {"over 64 bits (2^64 + 2^63 + 12345)", json.Number("27670116110564339993")}, {"over 64 bits (2^65 - 1)", json.Number("36893488147419103231")}, {"over 64 bits, 21 digits", json.Number("184467440737095516160")}, {"exponent notation", json.Number("1e3")}, {"non-numeric string", "12ab"}, {"numeric string for a number", "12"}, {"list for a scalar", []any{json.Number("1")}}, {"object for a scalar", map[string]any{"a": json.Number("1")}}, {"true", true}}
	strBad := []struct {
		n string
		v any
	}{{"non-decimal string", "0x1f"}, {"non-numeric string", "hello"}, {"empty string", ""}, {"fraction string", "1.5"}, {"number for a string", json.Number("17")}, {"list for a string", []any{"1"}}, {"underscored numeral", "1_000"}, {"leading space", " 12"}}
	pairBad := []struct {
		n string
		v any
	}{{"pair cut to one number", []any{json.Number("5")}}, {"empty list for a pair", []any{}}}
	ok := 0
	for _, e := range edits {
		bads := numBad
		if e.str {
			bads = strBad
		}
		if e.pair {
			bads = pairBad
		}
		for _, bad := range bads {
			var doc map[string]any
			dec := json.NewDecoder(bytes.NewReader(b))
			dec.UseNumber()
			dec.Decode(&doc)
			e.apply(doc, bad.v)
			text, _ := json.Marshal(doc)
			tmp := filepath.Join(r.Scratch, "c19_corrupt.json")
			os.WriteFile(tmp, text, 0o644)
			refused := true
			reader := ""
			for ri, rd := range []func() types.ProofWithPublicInputsRaw{
				func() types.ProofWithPublicInputsRaw { return types.ReadProofWithPublicInputsFromRequest(text) },
				func() types.ProofWithPublicInputsRaw { return types.ReadProofWithPublicInputs(tmp) },
			} {
				var out variables.ProofWithPublicInputs
				msg := catchPanic(func() { out, _ = variables.DeserializeProofWithPublicInputs(rd()) })
				ok1 := msg != ""
				if !ok1 {
					// must be refused at witness construction: some leaf is a nil *big.Int
					_, err := frontend.NewWitness(&proofProbe{P: out}, R)
					ok1 = err != nil
				}
				if !ok1 {
					refused = false
					reader = []string{"ReadProofWithPublicInputsFromRequest", "ReadProofWithPublicInputs"}[ri]
				}
			}
			how := reader
			if !refused {
				pth := filepath.Join(r.outDir(), "replays", "C19", fmt.Sprintf("corrupt_%s_%s.json", sanitizePath(e.where), sanitizePath(bad.n)))
				os.MkdirAll(filepath.Dir(pth), 0o755)
				os.WriteFile(pth, text, 0o644)
				r.addViolationWithReplay("malformed value accepted: "+bad.n, fmt.Sprintf("a document whose %s is a %s is read by types.%s, deserialised and turned into a witness without refusal (the value is replaced by something else)", e.where, bad.n, reader), map[string]any{"kind": "document", "file": pth, "expect": "refused", "reader": reader}, "real reading functions and gnark witness construction accept the corrupted document")
				continue
			}
			_ = how
			ok++
		}
	}
	return ok
}

type vdProbe struct {
	V variables.VerifierOnlyCircuitData
}

func (c *vdProbe) Define(api frontend.API) error { return nil }

// c19CorruptOther: single-value corruptions of the verifier-only data and of the common circuit data.
func c19CorruptOther(r *Run, vdPath, commonPath string) int {
	ok := 0
	load := func(p string) map[string]any {
		b, err := os.ReadFile(p)
		if err != nil {
			r.Infra("%v", err)
			return nil
		}
		var doc map[string]any
		dec := json.NewDecoder(bytes.NewReader(b))
		dec.UseNumber()
		dec.Decode(&doc)
		return doc
	}
	report := func(file, where, what, reader string, text []byte) {
		pth := filepath.Join(r.outDir(), "replays", "C19", fmt.Sprintf("corrupt_%s_%s_%s.json", file, sanitizePath(where), sanitizePath(what)))
		os.MkdirAll(filepath.Dir(pth), 0o755)
		os.WriteFile(pth, text, 0o644)
		r.addViolationWithReplay("malformed value accepted ("+file+"): "+what, fmt.Sprintf("a %s document whose %s is %s is read by types.%s without refusal (the value is replaced by something else)", file, where, what, reader), map[string]any{"kind": "document-other", "file": pth, "reader": reader}, "real reading function accepts the corrupted document")
	}
	// verifier-only data
	type vdEdit struct {
		where string
		apply func(d map[string]any, bad any)
	}
	for _, e := range []vdEdit{
		{"constants_sigmas_cap[0]", func(d map[string]any, bad any) { d["constants_sigmas_cap"].([]any)[0] = bad }},
		{"circuit_digest", func(d map[string]any, bad any) { d["circuit_digest"] = bad }},
	} {
		for _, bad := range []struct {
			n string
			v any
		}{{"a number for a string", json.Number("17")}, {"a non-decimal string", "0x1f"}, {"a list for a string", []any{"1"}}, {"an underscored numeral", "1_000"}} {
			doc := load(vdPath)
			if doc == nil {
				return ok
			}
			e.apply(doc, bad.v)
			text, _ := json.Marshal(doc)
			tmp := filepath.Join(r.Scratch, "c19_vd.json")
			os.WriteFile(tmp, text, 0o644)
			for ri, rd := range []func() types.VerifierOnlyCircuitDataRaw{
				func() types.VerifierOnlyCircuitDataRaw { return types.ReadVerifierOnlyCircuitDataFromRequest(text) },
				func() types.VerifierOnlyCircuitDataRaw { return types.ReadVerifierOnlyCircuitData(tmp) },
			} {
				var out variables.VerifierOnlyCircuitData
				msg := catchPanic(func() { out = variables.DeserializeVerifierOnlyCircuitData(rd()) })
				refused := msg != ""
				if !refused {
					_, err := frontend.NewWitness(&vdProbe{V: out}, R)
					refused = err != nil
				}
				if !refused {
					report("verifier-data", e.where, bad.n, []string{"ReadVerifierOnlyCircuitDataFromRequest", "ReadVerifierOnlyCircuitData"}[ri], text)
				} else {
					ok++
				}
			}
		}
	}
	// common circuit data
	type cEdit struct {
		where string
		apply func(d map[string]any, bad any)
	}
	cfg := func(d map[string]any) map[string]any { return d["config"].(map[string]any) }
	fp := func(d map[string]any) map[string]any { return d["fri_params"].(map[string]any) }
	for _, e := range []cEdit{
		{"config.num_challenges", func(d map[string]any, bad any) { cfg(d)["num_challenges"] = bad }},
		{"fri_params.degree_bits", func(d map[string]any, bad any) { fp(d)["degree_bits"] = bad }},
		{"fri_params.reduction_arity_bits[0]", func(d map[string]any, bad any) { fp(d)["reduction_arity_bits"].([]any)[0] = bad }},
		{"k_is[1]", func(d map[string]any, bad any) { d["k_is"].([]any)[1] = bad }},
		{"quotient_degree_factor", func(d map[string]any, bad any) { d["quotient_degree_factor"] = bad }},
		{"selectors_info.groups[0].start", func(d map[string]any, bad any) {
			d["selectors_info"].(map[string]any)["groups"].([]any)[0].(map[string]any)["start"] = bad
		}},
	} {
		for _, bad := range []struct {
			n string
			v any
		}{{"negative", json.Number("-5")}, {"fractional", json.Number("1.5")}, {"over 64 bits", json.Number("18446744073709551616")}, {"over 64 bits, 20 digits (3*10^19)", json.Number("30000000000000000000")}, {"over 64 bits (2^65 - 1)", json.Number("36893488147419103231")}, {"a numeric string", "12"}, {"a list for a scalar", []any{json.Number("1")}}} {
			doc := load(commonPath)
			if doc == nil {
				return ok
			}
			e.apply(doc, bad.v)
			text, _ := json.Marshal(doc)
			tmp := filepath.Join(r.Scratch, "c19_common_corrupt.json")
			os.WriteFile(tmp, text, 0o644)
			if msg := catchPanic(func() { types.ReadCommonCircuitData(tmp) }); msg == "" {
				report("common-data", e.where, bad.n, "ReadCommonCircuitData", text)
			} else {
				ok++
			}
		}
	}
	return ok
}

type proofProbe struct {
	P variables.ProofWithPublicInputs
}

func (c *proofProbe) Define(api frontend.API) error { return nil }

func init() {
	replayKinds["document-other"] = func(prop, path string, raw json.RawMessage, repo string) int {
		var c struct {
			File   string `json:"file"`
			Reader string `json:"reader"`
		}
		json.Unmarshal(raw, &c)
		text, err := os.ReadFile(c.File)
		if err != nil {
			fmt.Println("replay:", err)
			return 2
		}
		refused := false
		switch c.Reader {
		case "ReadCommonCircuitData":
			refused = catchPanic(func() { types.ReadCommonCircuitData(c.File) }) != ""
		default:
			var out variables.VerifierOnlyCircuitData
			msg := catchPanic(func() {
				if c.Reader == "ReadVerifierOnlyCircuitData" {
					out = variables.DeserializeVerifierOnlyCircuitData(types.ReadVerifierOnlyCircuitData(c.File))
				} else {
					out = variables.DeserializeVerifierOnlyCircuitData(types.ReadVerifierOnlyCircuitDataFromRequest(text))
				}
			})
			refused = msg != ""
			if !refused {
				_, err := frontend.NewWitness(&vdProbe{V: out}, R)
				refused = err != nil
			}
		}
		fmt.Printf("replay %s: corrupted document %s read by types.%s -> refused=%v\n", prop, c.File, c.Reader, refused)
		if !refused {
			fmt.Printf("VIOLATION property=%s replay=%s\n", prop, path)
			return 1
		}
		fmt.Println("not reproduced on the current tree")
		return 0
	}
	replayKinds["document"] = func(prop, path string, raw json.RawMessage, repo string) int {
		var c struct {
			File   string `json:"file"`
			Expect string `json:"expect"`
			Reader string `json:"reader"`
		}
		json.Unmarshal(raw, &c)
		text, err := os.ReadFile(c.File)
		if err != nil {
			fmt.Println("replay:", err)
			return 2
		}
		var out variables.ProofWithPublicInputs
		var pis []uint64
		msg := catchPanic(func() {
			if c.Reader == "ReadProofWithPublicInputs" {
				out, pis = variables.DeserializeProofWithPublicInputs(types.ReadProofWithPublicInputs(c.File))
			} else {
				out, pis = variables.DeserializeProofWithPublicInputs(types.ReadProofWithPublicInputsFromRequest(text))
			}
		})
		if c.Expect == "refused" {
			refused := msg != ""
			if !refused {
				_, err := frontend.NewWitness(&proofProbe{P: out}, R)
				refused = err != nil
			}
			fmt.Printf("replay %s: corrupted document %s -> refused=%v %s\n", prop, c.File, refused, short(msg, 100))
			if !refused {
				fmt.Printf("VIOLATION property=%s replay=%s\n", prop, path)
				return 1
			}
			fmt.Println("not reproduced on the current tree")
			return 0
		}
		var doc any
		dec := json.NewDecoder(bytes.NewReader(text))
		dec.UseNumber()
		dec.Decode(&doc)
		want, _ := refReadProof(doc)
		got := canon(out) + canon(pis)
		fmt.Printf("replay %s: document %s read by the real functions: agrees with the document=%v %s\n", prop, c.File, got == want && msg == "", short(msg, 100))
		if got != want || msg != "" {
			fmt.Printf("VIOLATION property=%s replay=%s\n", prop, path)
			return 1
		}
		fmt.Println("not reproduced on the current tree")
		return 0
	}
}
