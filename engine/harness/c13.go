package main

import (
	"fmt"
	"math/big"
	"os"
	"strings"

	"github.com/consensys/gnark/frontend"
	"github.com/consensys/gnark/test"
	"github.com/wormhole-foundation/example-near-light-client/fri"
	gl "github.com/wormhole-foundation/example-near-light-client/goldilocks"
	"github.com/wormhole-foundation/example-near-light-client/types"
	"github.com/wormhole-foundation/example-near-light-client/variables"
	"github.com/wormhole-foundation/example-near-light-client/verifier"

	"verif/engine/ref"
	"verif/engine/sym"
)

func init() { drivers["C13"] = runC13 }

type (
	subgroupFn  = func(*fri.Chip, []frontend.Variable, uint64) gl.Variable
	combineFn   = func(*fri.Chip, fri.InstanceInfo, variables.FriInitialTreeProof, gl.QuadraticExtensionVariable, gl.QuadraticExtensionVariable, []gl.QuadraticExtensionVariable) gl.QuadraticExtensionVariable
	computeFn   = func(*fri.Chip, gl.Variable, []frontend.Variable, uint64, []gl.QuadraticExtensionVariable, gl.QuadraticExtensionVariable) gl.QuadraticExtensionVariable
	finalFn     = func(*fri.Chip, variables.PolynomialCoeffs, gl.QuadraticExtensionVariable) gl.QuadraticExtensionVariable
	openingsFn  = func(*fri.Chip, *fri.Openings, gl.QuadraticExtensionVariable) []gl.QuadraticExtensionVariable
	queryRoundF = func(*fri.Chip, fri.InstanceInfo, *variables.FriChallenges, []gl.QuadraticExtensionVariable, []variables.FriMerkleCap, *variables.FriProof, gl.Variable, uint64, uint64, *variables.FriQueryRound)
)

func friChipFor(api frontend.API, cm *types.CommonCircuitData) *fri.Chip {
	c := *cm
	return fri.NewChip(api, &c, &c.FriParams)
}

// polyLists gives, per batch, the (oracle, index) list plonky2 prescribes for a circuit
// (fri_all_polys / fri_zs_polys), derived independently of the repository's fri_utils.go.
func polyLists(c *types.CommonCircuitData) [][][2]int {
	var all [][2]int
	add := func(o, n int) {
		for i := 0; i < n; i++ {
			all = append(all, [2]int{o, i})
		}
	}
	add(0, int(c.NumConstants+c.Config.NumRoutedWires))
	add(1, int(c.Config.NumWires))
	add(2, int(c.Config.NumChallenges*(1+c.NumPartialProducts)))
	add(3, int(c.Config.NumChallenges*c.QuotientDegreeFactor))
	var zs [][2]int
	for i := 0; i < int(c.Config.NumChallenges); i++ {
		zs = append(zs, [2]int{2, i})
	}
	return [][][2]int{all, zs}
}

func runC13(r *Run) {
	r.Functions = []string{"fri.(*Chip).calculateSubgroupX", "fri.(*Chip).expFromBitsConstBase", "fri.(*Chip).friCombineInitial", "fri.(*Chip).fromOpeningsAndAlpha", "fri.(*Chip).computeEvaluation", "fri.(*Chip).interpolate", "fri.(*Chip).finalPolyEval", "fri.(*Chip).verifyQueryRound", "fri.(*Chip).GetInstance / fri_utils.go polynomial lists"}
	base := loadInstance(r.Repo, "test_circuit")
	cm := &base.Common
	var cases []fieldCase
	// ---- domain point from the index bits ---------------------------------------------------------
	nlogs := []uint{8, 15}
	if r.Thorough() {
		nlogs = []uint{8, 9, 10, 11, 12, 13, 14, 15}
	}
	for _, nl := range nlogs {
		nl := nl
		cases = append(cases, fieldCase{name: fmt.Sprintf("calculateSubgroupX[nLog=%d]", nl), bound: fmt.Sprintf("all %d index bits in {0,1} (symbolic)", nl), build: func(fc *fctx) ([]frontend.Variable, []*ref.N) {
			chip := friChipFor(fc.api, cm)
			var bits []frontend.Variable
			var rbits []*ref.N
			for i := uint(0); i < nl; i++ {
				b, rb := fc.bitIn(fmt.Sprintf("b%d", i))
				bits = append(bits, b)
				rbits = append(rbits, rb)
			}
			x := fn[subgroupFn]("fri.Chip.calculateSubgroupX")(chip, bits, uint64(nl))
			return []frontend.Variable{x.Limb}, []*ref.N{fc.rb.SubgroupX(rbits, nl)}
		}})
	}
	// ---- combination of the initial-tree evaluations -----------------------------------------------
	type comb struct {
		name  string
		lists [][][2]int // per batch (oracle, index)
		sizes []int      // leaf sizes per oracle
		real  bool
		// hiding: the circuit description has hiding set; the leaves of blinded oracles (all but the first) carry
		// four salt values after their polynomials' evaluations, which take no part in the combination
		hiding bool
	}
	combs := []comb{{name: "synthetic[2+1]", lists: [][][2]int{{{0, 0}, {1, 1}}, {{1, 0}}}, sizes: []int{1, 2}}, {name: "synthetic[8+2]", lists: [][][2]int{{{0, 0}, {0, 1}, {0, 2}, {1, 0}, {1, 1}, {2, 0}, {2, 1}, {2, 2}}, {{2, 0}, {2, 1}}}, sizes: []int{3, 2, 3}}}
	combs = append(combs, comb{name: "synthetic[8+2], hiding", hiding: true, lists: combs[1].lists, sizes: []int{3, 2 + 4, 3 + 4}})
	rl := polyLists(cm)
	combs = append(combs, comb{name: "real[test_circuit]", lists: rl, real: true, sizes: []int{int(cm.NumConstants + cm.Config.NumRoutedWires), int(cm.Config.NumWires), int(cm.Config.NumChallenges * (1 + cm.NumPartialProducts)), int(cm.Config.NumChallenges * cm.QuotientDegreeFactor)}})
	for _, cb := range combs {
		cb := cb
		cases = append(cases, fieldCase{name: "friCombineInitial[" + cb.name + "]", bound: "all leaf evaluations, openings, alpha, points and the domain point (symbolic canonical values); x != point", build: func(fc *fctx) ([]frontend.Variable, []*ref.N) {
			cmx := cm
			if cb.hiding {
				h := *cm
				h.FriParams.Hiding = true
				cmx = &h
			}
			chip := friChipFor(fc.api, cmx)
			var proof variables.FriInitialTreeProof
			var rleaf [][]*ref.N
			for o, n := range cb.sizes {
				var ep variables.FriEvalProof
				var rl []*ref.N
				for i := 0; i < n; i++ {
					v, rv := fc.glIn(fmt.Sprintf("leaf%d_%d", o, i))
					ep.Elements = append(ep.Elements, v)
					rl = append(rl, rv)
				}
				proof.EvalsProofs = append(proof.EvalsProofs, ep)
				rleaf = append(rleaf, rl)
			}
			alpha, ralpha := fc.qeIn("alpha")
			xv, rx := fc.glIn("x")
			var inst fri.InstanceInfo
			var op fri.Openings
			var rbatches []ref.FriBatch
			if cb.real {
				zeta, rz := fc.qeIn("zeta")
				inst = chip.GetInstance(zeta)
				// the second point is g*zeta as computed by the implementation; the reference computes it itself
				g := ref.PrimitiveRootOfUnity(uint(cm.DegreeBits))
				rzn := fc.rb.EMul(fc.rb.EFromBase(fc.rb.Const(g)), rz)
				rbatches = []ref.FriBatch{{Point: rz}, {Point: rzn}}
			} else {
				if cb.hiding {
					for o, n := range cb.sizes {
						oi := fri.OracleInfo{NumPolys: uint64(n), Blinding: o > 0}
						if o > 0 {
							oi.NumPolys = uint64(n - 4)
						}
						inst.Oracles = append(inst.Oracles, oi)
					}
				}
				for bi, l := range cb.lists {
					pt, rpt := fc.qeIn(fmt.Sprintf("pt%d", bi))
					var bi2 fri.BatchInfo
					bi2.Point = pt
					for _, p := range l {
						bi2.Polynomials = append(bi2.Polynomials, fri.PolynomialInfo{OracleIndex: uint64(p[0]), PolynomialInfo: uint64(p[1])})
					}
					inst.Batches = append(inst.Batches, bi2)
					rbatches = append(rbatches, ref.FriBatch{Point: rpt})
				}
			}
			for bi, l := range cb.lists {
				var ob fri.OpeningBatch
				for i, p := range l {
					v, rv := fc.qeIn(fmt.Sprintf("open%d_%d", bi, i))
					ob.Values = append(ob.Values, v)
					rbatches[bi].Openings = append(rbatches[bi].Openings, rv)
					rbatches[bi].Evals = append(rbatches[bi].Evals, rleaf[p[0]][p[1]])
				}
				op.Batches = append(op.Batches, ob)
			}
			pre := fn[openingsFn]("fri.Chip.fromOpeningsAndAlpha")(chip, &op, alpha)
			out := fn[combineFn]("fri.Chip.friCombineInitial")(chip, inst, proof, alpha, xv.ToQuadraticExtension(), pre)
			ro := fc.rb.FriCombineInitial(rbatches, ralpha, rx)
			return fc.qeT(out), eN(ro)
		}})
	}
	// ---- fold of one coset ---------------------------------------------------------------------------
	cases = append(cases, fieldCase{name: "computeEvaluation[arity=16,symbolic position]", bound: "all 16 evaluations, beta, the domain point (symbolic canonical values) and all 16 within-coset positions (4 symbolic bits); beta not a coset point", build: func(fc *fctx) ([]frontend.Variable, []*ref.N) {
		return computeEvalCase(fc, cm, -1)
	}})
	if r.Thorough() {
		for p := 0; p < 16; p++ {
			p := p
			cases = append(cases, fieldCase{name: fmt.Sprintf("computeEvaluation[arity=16,position=%d]", p), bound: "all 16 evaluations, beta, the domain point (symbolic); fixed within-coset position", build: func(fc *fctx) ([]frontend.Variable, []*ref.N) {
				return computeEvalCase(fc, cm, p)
			}})
		}
	}
	// ---- final polynomial ------------------------------------------------------------------------------
	flens := []int{1, 2, 16}
	if r.Thorough() {
		flens = []int{1, 2, 3, 4, 8, 15, 16}
	}
	for _, n := range flens {
		n := n
		cases = append(cases, fieldCase{name: fmt.Sprintf("finalPolyEval[len=%d]", n), bound: fmt.Sprintf("%d coefficients and the point (symbolic)", n), build: func(fc *fctx) ([]frontend.Variable, []*ref.N) {
			chip := friChipFor(fc.api, cm)
			var pc variables.PolynomialCoeffs
			var rc []ref.E
			for i := 0; i < n; i++ {
				c, rcv := fc.qeIn(fmt.Sprintf("c%d", i))
				pc.Coeffs = append(pc.Coeffs, c)
				rc = append(rc, rcv)
			}
			x, rx := fc.qeIn("x")
			return fc.qeT(fn[finalFn]("fri.Chip.finalPolyEval")(chip, pc, x)), eN(fc.rb.FinalPolyEval(rc, rx))
		}})
	}
	// ---- a whole query round: the accepted equalities -----------------------------------------------
	var realRound fieldCase
	realRound = fieldCase{name: "verifyQueryRound[test_circuit]", acceptReplay: func() string {
		if s := friAcceptReplay(r); s != "" {
			return s
		}
		return friRecordReplay(realRound, r)
	}, bound: "real shape of test_circuit (258+2 opened polynomials, two arity-16 steps, 16 final coefficients); every leaf value, opening, challenge and the query index symbolic; Merkle checks excluded (C12)", build: func(fc *fctx) ([]frontend.Variable, []*ref.N) {
		return queryRoundCase(fc, base, r)
	}}
	cases = append(cases, realRound)
	// synthetic shapes with other numbers of reduction steps (the real proofs all have two)
	nsteps := []int{3}
	if r.Thorough() {
		nsteps = []int{1, 3, 4}
	}
	for _, ns := range nsteps {
		syn := *base
		syn.Name = fmt.Sprintf("synthetic %d steps", ns)
		syn.Common.FriParams.ReductionArityBits = nil
		for i := 0; i < ns; i++ {
			syn.Common.FriParams.ReductionArityBits = append(syn.Common.FriParams.ReductionArityBits, 4)
		}
		syn.Common.FriParams.DegreeBits = uint64(4*ns + 1)
		syn.Common.DegreeBits = syn.Common.FriParams.DegreeBits
		syn.Common.Config.NumWires, syn.Common.Config.NumRoutedWires, syn.Common.NumConstants = 3, 2, 2
		syn.Common.Config.NumConstants = 2
		syn.Common.Config.NumChallenges, syn.Common.NumPartialProducts, syn.Common.QuotientDegreeFactor = 1, 1, 1
		synp := &syn
		var cs fieldCase
		cs = fieldCase{name: fmt.Sprintf("verifyQueryRound[synthetic: %d arity-16 steps, 2 final coefficients, 5+4+2+1 polynomials]", ns), bound: "synthetic parameters; every leaf value, opening, challenge and the query index symbolic; Merkle checks excluded (C12)", build: func(fc *fctx) ([]frontend.Variable, []*ref.N) {
			return queryRoundCase(fc, synp, r)
		}}
		cs.acceptReplay = func() string { return friRecordReplay(cs, r) }
		cases = append(cases, cs)
	}
	hooks := map[string]hookFn{"fri.Chip.verifyMerkleProofToCapWithCapIndex": func(recv any, args []any) []any { return nil }}
	var stats []any
	for _, c := range cases {
		q := runFieldCase(r, "fri-algebra", c, hooks)
		if q != nil {
			stats = append(stats, q.stats())
		}
		r.Discharge()
	}
	for i, s := range stats {
		if i >= len(stats)-4 {
			r.Sample(s)
		}
	}
	r.Bounds["values"] = "all field values (symbolic)"
	r.Bounds["shapes"] = "LDE bits " + fmt.Sprint(nlogs) + "; combine batches {2+1, 8+2, real 258+2}; arity 16 with symbolic within-coset index (thorough: also each of the 16 positions concretely); final polynomial lengths " + fmt.Sprint(flens) + "; one whole query round of the real shape and of synthetic shapes with " + fmt.Sprint(nsteps) + " reduction steps"
	r.Assumptions = append(r.Assumptions,
		"leaf gadget contracts (C05-C07) and extension arithmetic as executed (C08 re-proves it); Merkle sub-calls replaced by no-ops (C12)",
		"precondition: beta is not one of the 16 coset points and the domain point differs from zeta and g*zeta (the circuit is unsatisfiable there because InverseExtension rejects zero)")
	r.Outside = append(r.Outside, "arities other than 16 (the implementation refuses them)", "soundness of FRI itself")
	_ = big.NewInt
	_ = strings.Join
}

func computeEvalCase(fc *fctx, cm *types.CommonCircuitData, pos int) ([]frontend.Variable, []*ref.N) {
	chip := friChipFor(fc.api, cm)
	x, rx := fc.glIn("x")
	var bits []frontend.Variable
	var rbits []*ref.N
	for i := 0; i < 4; i++ {
		if pos < 0 {
			b, rb := fc.bitIn(fmt.Sprintf("w%d", i))
			bits = append(bits, b)
			rbits = append(rbits, rb)
		} else {
			bits = append(bits, (pos>>i)&1)
			rbits = append(rbits, fc.rb.ConstU(uint64((pos>>i)&1)))
		}
	}
	var ev []gl.QuadraticExtensionVariable
	var rev []ref.E
	for i := 0; i < 16; i++ {
		v, rv := fc.qeIn(fmt.Sprintf("y%d", i))
		ev = append(ev, v)
		rev = append(rev, rv)
	}
	beta, rbeta := fc.qeIn("beta")
	out := fn[computeFn]("fri.Chip.computeEvaluation")(chip, x, bits, 4, ev, beta)
	return stripPointLookup(fc, fc.qeT(out)), eN(fc.rb.ComputeEvaluation(rx, rbits, 4, rev, rbeta))
}

func queryRoundCase(fc *fctx, in *instance, r *Run) ([]frontend.Variable, []*ref.N) {
	cm := &in.Common
	chip := friChipFor(fc.api, cm)
	lists := polyLists(cm)
	sizes := []int{int(cm.NumConstants + cm.Config.NumRoutedWires), int(cm.Config.NumWires), int(cm.Config.NumChallenges * (1 + cm.NumPartialProducts)), int(cm.Config.NumChallenges * cm.QuotientDegreeFactor)}
	var round variables.FriQueryRound
	var rleaf [][]*ref.N
	for o, n := range sizes {
		var ep variables.FriEvalProof
		var rl []*ref.N
		for i := 0; i < n; i++ {
			v, rv := fc.glIn(fmt.Sprintf("leaf%d_%d", o, i))
			ep.Elements = append(ep.Elements, v)
			rl = append(rl, rv)
		}
		round.InitialTreesProof.EvalsProofs = append(round.InitialTreesProof.EvalsProofs, ep)
		rleaf = append(rleaf, rl)
	}
	var proof variables.FriProof
	var rsteps [][]ref.E
	var ch variables.FriChallenges
	var rbetas []ref.E
	for s := range cm.FriParams.ReductionArityBits {
		var st variables.FriQueryStep
		var rs []ref.E
		for i := 0; i < 16; i++ {
			v, rv := fc.qeIn(fmt.Sprintf("ev%d_%d", s, i))
			st.Evals = append(st.Evals, v)
			rs = append(rs, rv)
		}
		round.Steps = append(round.Steps, st)
		rsteps = append(rsteps, rs)
		b, rb := fc.qeIn(fmt.Sprintf("beta%d", s))
		ch.FriBetas = append(ch.FriBetas, b)
		rbetas = append(rbetas, rb)
		proof.CommitPhaseMerkleCaps = append(proof.CommitPhaseMerkleCaps, make(variables.FriMerkleCap, 16))
	}
	flen := cm.FriParams.FinalPolyLen()
	var rfinal []ref.E
	for i := 0; i < flen; i++ {
		c, rc := fc.qeIn(fmt.Sprintf("fp%d", i))
		proof.FinalPoly.Coeffs = append(proof.FinalPoly.Coeffs, c)
		rfinal = append(rfinal, rc)
	}
	alpha, ralpha := fc.qeIn("alpha")
	ch.FriAlpha = alpha
	zeta, rz := fc.qeIn("zeta")
	inst := chip.GetInstance(zeta)
	g := ref.PrimitiveRootOfUnity(uint(cm.DegreeBits))
	rbatches := []ref.FriBatch{{Point: rz}, {Point: fc.rb.EMul(fc.rb.EFromBase(fc.rb.Const(g)), rz)}}
	var op fri.Openings
	for bi, l := range lists {
		var ob fri.OpeningBatch
		for i, p := range l {
			v, rv := fc.qeIn(fmt.Sprintf("open%d_%d", bi, i))
			ob.Values = append(ob.Values, v)
			rbatches[bi].Openings = append(rbatches[bi].Openings, rv)
			rbatches[bi].Evals = append(rbatches[bi].Evals, rleaf[p[0]][p[1]])
		}
		op.Batches = append(op.Batches, ob)
	}
	pre := fn[openingsFn]("fri.Chip.fromOpeningsAndAlpha")(chip, &op, alpha)
	xIndex, _ := fc.glIn("xindex")
	nLog := cm.FriParams.DegreeBits + cm.FriParams.Config.RateBits
	caps := make([]variables.FriMerkleCap, 4)
	for i := range caps {
		caps[i] = make(variables.FriMerkleCap, 16)
	}
	before := 0
	if fc.e != nil {
		before = len(fc.e.Cons)
	}
	fn[queryRoundF]("fri.Chip.verifyQueryRound")(chip, inst, &ch, pre, caps, &proof, xIndex, uint64(1)<<nLog, nLog, &round)
	if fc.e == nil {
		return nil, nil // the acceptance conditions are read off the recorded constraints (symbolic run only)
	}
	// index bits: the 64 bit atoms created by ToBinary inside the round
	var bits []*ref.N
	for _, a := range fc.e.Atoms {
		if a.Kind == "bit" && strings.Contains(a.Site, "verifyQueryRound") && len(bits) < int(nLog) {
			bits = append(bits, fc.rb.Var(a, a.Name))
		}
	}
	var outs []frontend.Variable
	for _, c := range fc.e.Cons[before:] {
		if c.Kind == sym.CEq && strings.HasPrefix(c.Site, "goldilocks.(*Chip).AssertIsEqual") && strings.Contains(firstFrame(strings.TrimPrefix(c.Site, firstFrame(c.Site)+" < ")), "verifyQueryRound") {
			outs = append(outs, c.A, c.B)
		}
	}
	outs = stripPointLookup(fc, outs)
	var arities []uint
	for _, a := range cm.FriParams.ReductionArityBits {
		arities = append(arities, uint(a))
	}
	conds := fc.rb.QueryRoundConditions(bits, uint(nLog), arities, rbatches, ralpha, rsteps, rbetas, rfinal)
	var refs []*ref.N
	for _, c := range conds {
		// each extension equality is asserted coordinate-wise: (a0,b0) then (a1,b1)
		refs = append(refs, c[0][0], c[1][0], c[0][1], c[1][1])
	}
	return outs, refs
}

// stripPointLookup removes the "beta is one of the coset points" branch from interpolation
// results: interpolate returns Lookup(all quotients exist, lookupVal, interpolation); under the
// stated precondition (and in every satisfying assignment, since the divisions assert non-zero
// divisors) the selector is 1 and the value is the interpolation.
func stripPointLookup(fc *fctx, vs []frontend.Variable) []frontend.Variable {
	if fc.e == nil {
		return vs
	}
	out := make([]frontend.Variable, len(vs))
	for i, v := range vs {
		t := fc.e.K(v)
		if t.Op == sym.OpIte && hasIsZero(t.Args[0], 0) {
			out[i] = t.Args[1]
		} else {
			out[i] = v
		}
	}
	return out
}

func hasIsZero(t *sym.Term, depth int) bool {
	if t.Op == sym.OpIsZero {
		return true
	}
	if depth > 64 || t.Op == sym.OpAtom {
		return false
	}
	for _, a := range t.Args {
		if hasIsZero(a, depth+1) {
			return true
		}
	}
	return false
}

// friPerturbCircuit: the real transcript and FRI verifier on an honest proof, with one element of
// the FRI proof changed AFTER the challenges were derived (so the change is seen only by the
// query-round algebra, not by Fiat-Shamir).
type friPerturbCircuit struct {
	What         string                            `gnark:"-"` // "", "final", "step"
	I, J, Limb   int                               `gnark:"-"`
	VD           variables.VerifierOnlyCircuitData `gnark:"-"`
	Common       types.CommonCircuitData           `gnark:"-"`
	Proof        variables.Proof
	PublicInputs []gl.Variable
}

func (c *friPerturbCircuit) Define(api frontend.API) error {
	vc := verifier.NewVerifierChip(api, c.Common)
	pih := vc.GetPublicInputsHash(c.PublicInputs)
	ch := vc.GetChallenges(c.Proof, pih, c.VD)
	fc := *fieldOf[*fri.Chip](vc, "friChip")
	glc := gl.New(api)
	fp := c.Proof.OpeningProof
	switch c.What {
	case "final":
		fp.FinalPoly.Coeffs = append([]gl.QuadraticExtensionVariable{}, fp.FinalPoly.Coeffs...)
		v := fp.FinalPoly.Coeffs[c.I]
		v[c.Limb] = glc.Add(v[c.Limb], gl.One())
		fp.FinalPoly.Coeffs[c.I] = v
	case "step":
		fp.QueryRoundProofs = append([]variables.FriQueryRound{}, fp.QueryRoundProofs...)
		qr := fp.QueryRoundProofs[0]
		qr.Steps = append([]variables.FriQueryStep{}, qr.Steps...)
		st := qr.Steps[c.I]
		st.Evals = append([]gl.QuadraticExtensionVariable{}, st.Evals...)
		v := st.Evals[c.J]
		v[c.Limb] = glc.Add(v[c.Limb], gl.One())
		st.Evals[c.J] = v
		qr.Steps[c.I] = st
		fp.QueryRoundProofs[0] = qr
	}
	caps := []variables.FriMerkleCap{c.VD.ConstantSigmasCap, c.Proof.WiresCap, c.Proof.PlonkZsPartialProductsCap, c.Proof.QuotientPolysCap}
	fc.VerifyFriProof(fc.GetInstance(ch.PlonkZeta), fc.ToOpenings(c.Proof.Openings), &ch.FriChallenges, caps, &fp)
	return nil
}

// friAcceptReplay: honest proof accepted; a changed final-polynomial coordinate rejected (full real
// code); a changed fold evaluation rejected by the round algebra (Merkle check switched off).
// friRecordReplay runs the real verifyQueryRound on gnark's test engine with random inputs and
// records the operands of the equalities it asserts (the assertion itself is switched off so that
// the run goes through); they must be the values plonky2's conditions have at the same inputs.
func friRecordReplay(c fieldCase, r *Run) string {
	merkleOff := func(recv any, args []any) []any { return nil }
	hooks := map[string]hookFn{"fri.Chip.verifyMerkleProofToCapWithCapIndex": merkleOff}
	names, his, _, refs, e := engineInputs(c, hooks)
	if e != "" || len(refs) == 0 {
		return ""
	}
	env := map[string]*big.Int{}
	var bitNames []string
	for i, n := range names {
		env[n] = ref.UFEval(fmt.Sprintf("fri-record-%d", r.Seed), i, false, nil)
		if his[i].Cmp(sym.Pm1) < 0 {
			env[n].Mod(env[n], new(big.Int).Add(his[i], big.NewInt(1)))
		}
		if his[i].Cmp(big.NewInt(1)) == 0 && n != "xindex" {
			bitNames = append(bitNames, n)
		}
	}
	xi, ok := env["xindex"]
	if !ok {
		return ""
	}
	for k, n := range bitNames {
		env[n] = big.NewInt(int64(xi.Bit(k)))
	}
	var rec []*big.Int
	h2 := map[string]hookFn{"fri.Chip.verifyMerkleProofToCapWithCapIndex": merkleOff,
		"goldilocks.Chip.AssertIsEqual": func(recv any, args []any) []any {
			site := sym.CallSite("example-near-light-client", 3)
			rest := strings.TrimPrefix(site, firstFrame(site)+" < ")
			if strings.Contains(firstFrame(rest), "verifyQueryRound") {
				rec = append(rec, toBig(args[0].(gl.Variable).Limb), toBig(args[1].(gl.Variable).Limb))
			}
			return nil
		}}
	if ok, _ := runCaseOnEngine(c, h2, names, env); !ok {
		return "" // the run did not go through for another reason: no verdict
	}
	memo := map[*ref.N]*big.Int{}
	// engineInputs binds reference variables to the dry run's atoms: evaluate by name
	want := make([]*big.Int, len(refs))
	for i, n := range refs {
		want[i] = ref.Eval(n, func(h any) *big.Int {
			if v, ok := env[h.(*sym.Term).Name]; ok {
				return v
			}
			return new(big.Int)
		}, memo)
	}
	if len(rec) != len(want) {
		return fmt.Sprintf("the real verifyQueryRound asserts %d equalities, plonky2's query round has %d", len(rec)/2, len(want)/2)
	}
	for i := range want {
		g := new(big.Int).Mod(rec[i], P)
		if g.Cmp(want[i]) != 0 {
			return fmt.Sprintf("operand %d of asserted equality %d of the real verifyQueryRound is %s at random inputs (query index %s), plonky2's condition has %s there", i%2, i/2, g, xi, want[i])
		}
	}
	return ""
}

func friAcceptReplay(r *Run) string {
	in := loadInstance(r.Repo, "test_circuit").restrict(1)
	os.Setenv("USE_BIT_DECOMPOSITION_RANGE_CHECK", "true")
	defer os.Unsetenv("USE_BIT_DECOMPOSITION_RANGE_CHECK")
	run := func(what string, i, j, limb int, merkleOff bool) (bool, string) {
		clearHooks()
		if merkleOff {
			setHooks(map[string]hookFn{"fri.Chip.verifyMerkleProofToCapWithCapIndex": func(recv any, args []any) []any { return nil }})
		}
		defer clearHooks()
		mk := func() *friPerturbCircuit {
			return &friPerturbCircuit{What: what, I: i, J: j, Limb: limb, VD: in.VD, Common: in.Common, Proof: cloneValue(in.Proof.Proof), PublicInputs: cloneValue(in.Proof.PublicInputs)}
		}
		var err error
		pm := catchPanic(func() { quiet(func() { err = test.IsSolved(mk(), mk(), R) }) })
		forgetChips()
		if pm != "" {
			return false, "panic: " + short(pm, 120)
		}
		if err != nil {
			return false, short(err.Error(), 120)
		}
		return true, ""
	}
	if ok, msg := run("", 0, 0, 0, false); !ok {
		return "the honest FRI proof is rejected by the real VerifyFriProof: " + msg
	}
	n := len(in.Proof.Proof.OpeningProof.FinalPoly.Coeffs)
	for _, p := range [][2]int{{0, 0}, {0, 1}, {n - 1, 1}, {n / 2, 1}} {
		if ok, _ := run("final", p[0], 0, p[1], false); ok {
			return fmt.Sprintf("final-polynomial coefficient %d, coordinate %d changed by one after the challenges were drawn: still accepted by the real VerifyFriProof", p[0], p[1])
		}
	}
	for s := range in.Common.FriParams.ReductionArityBits {
		for _, p := range [][2]int{{0, 0}, {5, 1}, {15, 1}} {
			if ok, _ := run("step", s, p[0], p[1], true); ok {
				return fmt.Sprintf("fold evaluation %d of step %d, coordinate %d changed by one: still accepted by the query-round algebra (Merkle check switched off)", p[0], s, p[1])
			}
		}
	}
	return ""
}
