package main

import (
	"crypto/sha256"
	"encoding/binary"
	"fmt"
	"math/big"
	"os"
	"sort"
	"strings"
	"time"

	"verif/engine/poly"
	"verif/engine/ref"
	"verif/engine/smt"
	"verif/engine/sym"
)

// eqCheck proves that implementation terms (field mode: canonical atoms defined by the hooked leaf
// gadgets, plus plain API arithmetic) are congruent modulo p to reference nodes, by cut-point
// sweeping: candidate pairs are proposed by evaluating both DAGs at pseudo-random points
// (untrusted), every accepted pair is proved by the solver as a hypothesis-free polynomial identity
// over the atoms and earlier cut points (optionally "impl - ref = p*K" with the certificate K
// computed by the untrusted encoder).
type eqCheck struct {
	r      *Run
	name   string
	family string
	e      *sym.Ctx
	rb     *ref.B
	bigMod bool // identities over F_r (no Goldilocks lifting)
	rounds int
	seed   int64
	bound  string

	ival []map[*sym.Term]*big.Int
	rval []map[*ref.N]*big.Int

	cutRef    map[*sym.Term]*ref.N // proven: impl term == ref node (mod p)
	cutImpl   map[*ref.N]*sym.Term
	sigIdx    map[string][]*ref.N
	opaqueIdx map[string][]*ref.N
	constCut  map[*sym.Term]*big.Int // atoms proved equal to a constant

	ipoly map[*sym.Term]poly.Poly
	rpoly map[*ref.N]poly.Poly
	byID  map[int]*sym.Term
	top   map[*sym.Term]bool // the term currently being proved (never replaced by its own cut)

	Proved, Tried, Refined, GaveUp int
	obs                            int
	failed                         []string
}

func newEqCheck(r *Run, name, family string, e *sym.Ctx, rb *ref.B) *eqCheck {
	q := &eqCheck{r: r, name: name, family: family, e: e, rb: rb, rounds: 4, seed: r.Seed,
		constCut: map[*sym.Term]*big.Int{}, top: map[*sym.Term]bool{}, cutRef: map[*sym.Term]*ref.N{}, cutImpl: map[*ref.N]*sym.Term{}, ipoly: map[*sym.Term]poly.Poly{}, rpoly: map[*ref.N]poly.Poly{}, byID: map[int]*sym.Term{}}
	for i := 0; i < q.rounds+edgeRounds; i++ {
		q.ival = append(q.ival, map[*sym.Term]*big.Int{})
		q.rval = append(q.rval, map[*ref.N]*big.Int{})
	}
	return q
}

// ---- sampling --------------------------------------------------------------------------------

// rounds >= q.rounds are "edge" rounds: every atom is 0, 1, its maximum or random; they are used
// only to search for disagreements, never for candidate matching.
const edgeRounds = 6

func (q *eqCheck) envVal(round int, a *sym.Term) *big.Int {
	if round >= q.rounds {
		h := sha256.Sum256([]byte(fmt.Sprintf("edge|%d|%d|%s", q.seed, round, a.Name)))
		switch h[0] % 8 {
		case 0, 1, 2:
			return big.NewInt(0)
		case 3:
			if a.Hi.Sign() > 0 {
				return big.NewInt(1)
			}
			return big.NewInt(0)
		case 4:
			return new(big.Int).Set(a.Hi)
		}
	}
	if a.Hi.Cmp(big.NewInt(1)) == 0 && round < q.rounds {
		// bits: pseudo-random in even rounds, the complement in the following odd round, so that
		// every bit takes both values among the candidate-matching rounds
		h := sha256.Sum256([]byte(fmt.Sprintf("bit|%d|%d|%s", q.seed, round/2, a.Name)))
		v := int64(h[0] & 1)
		if round%2 == 1 {
			v = 1 - v
		}
		return big.NewInt(v)
	}
	h := sha256.New()
	var buf [8]byte
	binary.LittleEndian.PutUint64(buf[:], uint64(q.seed))
	h.Write(buf[:])
	binary.LittleEndian.PutUint64(buf[:], uint64(round))
	h.Write(buf[:])
	h.Write([]byte(a.Name))
	d := h.Sum(nil)
	v := new(big.Int).SetBytes(d)
	m := new(big.Int).Add(a.Hi, big.NewInt(1))
	return v.Mod(v, m)
}

func isDefined(t *sym.Term) bool {
	return t.Op == sym.OpAtom && (t.Def != nil || (t.Kind == "inverse" && len(t.Aux) == 1))
}

func (q *eqCheck) implEval(round int, t *sym.Term) *big.Int {
	memo := q.ival[round]
	if v, ok := memo[t]; ok {
		return v
	}
	type fr struct {
		t *sym.Term
		i int
	}
	kids := func(x *sym.Term) []*sym.Term {
		if x.Op == sym.OpAtom {
			if x.Def != nil {
				return []*sym.Term{x.Def}
			}
			if x.Kind == "inverse" && len(x.Aux) == 1 {
				return x.Aux
			}
			return nil
		}
		return x.Args
	}
	st := []fr{{t, 0}}
	for len(st) > 0 {
		f := &st[len(st)-1]
		if _, ok := memo[f.t]; ok {
			st = st[:len(st)-1]
			continue
		}
		ks := kids(f.t)
		if f.i < len(ks) {
			k := ks[f.i]
			f.i++
			if _, ok := memo[k]; !ok {
				st = append(st, fr{k, 0})
			}
			continue
		}
		x := f.t
		var v *big.Int
		switch x.Op {
		case sym.OpConst:
			v = x.C
		case sym.OpAtom:
			switch {
			case x.Def != nil:
				v = new(big.Int).Mod(memo[x.Def], P)
			case x.Kind == "inverse" && len(x.Aux) == 1:
				a := new(big.Int).Mod(memo[x.Aux[0]], P)
				if a.Sign() == 0 {
					v = new(big.Int)
				} else {
					v = a.ModInverse(a, P)
				}
			default:
				v = q.envVal(round, x)
			}
		case sym.OpAdd:
			v = new(big.Int).Add(memo[x.Args[0]], memo[x.Args[1]])
			v.Mod(v, R)
		case sym.OpSub:
			v = new(big.Int).Sub(memo[x.Args[0]], memo[x.Args[1]])
			v.Mod(v, R)
		case sym.OpMul:
			v = new(big.Int).Mul(memo[x.Args[0]], memo[x.Args[1]])
			v.Mod(v, R)
		case sym.OpIte:
			if memo[x.Args[0]].Cmp(big.NewInt(1)) == 0 {
				v = memo[x.Args[1]]
			} else {
				v = memo[x.Args[2]]
			}
		case sym.OpIsZero:
			if memo[x.Args[0]].Sign() == 0 {
				v = big.NewInt(1)
			} else {
				v = big.NewInt(0)
			}
		case sym.OpUF:
			as := make([]*big.Int, len(x.Args))
			for i, a := range x.Args {
				as[i] = memo[a]
			}
			v = ref.UFEval(x.Name, x.Idx, x.Hi.Cmp(sym.Pm1) > 0, as)
		}
		memo[x] = v
		st = st[:len(st)-1]
	}
	return memo[t]
}

func (q *eqCheck) refEval(round int, n *ref.N) *big.Int {
	return ref.Eval(n, func(h any) *big.Int { return q.envVal(round, h.(*sym.Term)) }, q.rval[round])
}

func (q *eqCheck) modOf(big_ bool) *big.Int {
	if big_ || q.bigMod {
		return R
	}
	return P
}

func (q *eqCheck) implSig(t *sym.Term) string {
	var sb strings.Builder
	for i := 0; i < q.rounds; i++ {
		// values living in F_r (BN254 hashes: atoms / hash outputs ranging over [0,r), constants >= p)
		// are compared modulo r, Goldilocks values modulo p
		bigv := ((t.Op == sym.OpUF || t.Op == sym.OpAtom) && t.Hi.Cmp(sym.Rm1) == 0) || (t.Op == sym.OpConst && t.C.Cmp(P) >= 0)
		v := new(big.Int).Mod(q.implEval(i, t), q.modOf(bigv))
		sb.WriteString(v.Text(36))
		sb.WriteByte('|')
	}
	return sb.String()
}

func (q *eqCheck) refSig(n *ref.N) string {
	var sb strings.Builder
	for i := 0; i < q.rounds; i++ {
		sb.WriteString(q.refEval(i, n).Text(36))
		sb.WriteByte('|')
	}
	return sb.String()
}

// filterByEdge keeps the candidates that also agree with t on the edge rounds (used when several
// reference nodes share the candidate-matching signature).
func (q *eqCheck) filterByEdge(t *sym.Term, cands []*ref.N) []*ref.N {
	if len(cands) <= 1 {
		return cands
	}
	var out []*ref.N
	for _, n := range cands {
		ok := true
		for i := q.rounds; i < q.rounds+edgeRounds; i++ {
			m := q.modOf(n.BigMod)
			if new(big.Int).Mod(q.implEval(i, t), m).Cmp(q.refEval(i, n)) != 0 {
				ok = false
				break
			}
		}
		if ok {
			out = append(out, n)
		}
		if len(out) >= 6 {
			break
		}
	}
	return out
}

func (q *eqCheck) indexRef() {
	q.sigIdx = map[string][]*ref.N{}
	for _, n := range q.rb.All {
		if n.Op == ref.OConst {
			continue
		}
		s := q.refSig(n)
		q.sigIdx[s] = append(q.sigIdx[s], n)
	}
}

// ---- polynomials -----------------------------------------------------------------------------

func (q *eqCheck) liftConst(c *big.Int) *big.Int {
	if q.bigMod {
		return c
	}
	return sym.SymLift(new(big.Int).Mod(c, P))
}

// implPoly: polynomial of an implementation term over plain atoms and proven cut atoms; atoms in
// `open` are unfolded even if proven.
func (q *eqCheck) implPoly(t *sym.Term, open map[*sym.Term]bool, memo map[*sym.Term]poly.Poly) (poly.Poly, error) {
	if p, ok := memo[t]; ok {
		return p, nil
	}
	var p poly.Poly
	var err error
	if _, proven := q.cutRef[t]; proven && !open[t] && t.Op != sym.OpAtom && t.Op != sym.OpConst && !q.top[t] {
		q.byID[t.ID] = t
		p = poly.Var(t.ID)
		memo[t] = p
		return p, nil
	}
	switch t.Op {
	case sym.OpConst:
		p = poly.Const(q.liftConst(t.C))
	case sym.OpAtom:
		_, proven := q.cutRef[t]
		cv, isConst := q.constCut[t]
		switch {
		case isConst && !q.top[t] && !open[t]:
			p = poly.Const(q.liftConst(cv))
		case t.Def != nil && (!proven || open[t] || open[q.rep(t)]):
			p, err = q.implPoly(t.Def, open, memo)
		default:
			// all implementation atoms proved equal to one reference node share one variable
			rp := q.rep(t)
			q.byID[rp.ID] = rp
			p = poly.Var(rp.ID)
		}
	case sym.OpAdd, sym.OpSub, sym.OpMul:
		var a, b poly.Poly
		if a, err = q.implPoly(t.Args[0], open, memo); err != nil {
			return nil, err
		}
		if b, err = q.implPoly(t.Args[1], open, memo); err != nil {
			return nil, err
		}
		switch t.Op {
		case sym.OpAdd:
			p = poly.Add(a, b)
		case sym.OpSub:
			p = poly.Sub(a, b)
		default:
			p, err = poly.Mul(a, b)
		}
	case sym.OpIte:
		var c, x, y poly.Poly
		if c, err = q.implPoly(t.Args[0], open, memo); err != nil {
			return nil, err
		}
		if x, err = q.implPoly(t.Args[1], open, memo); err != nil {
			return nil, err
		}
		if y, err = q.implPoly(t.Args[2], open, memo); err != nil {
			return nil, err
		}
		// y + c*(x-y)
		var m poly.Poly
		if m, err = poly.Mul(c, poly.Sub(x, y)); err != nil {
			return nil, err
		}
		p = poly.Add(y, m)
	case sym.OpIsZero, sym.OpUF:
		q.byID[t.ID] = t
		p = poly.Var(t.ID)
	default:
		return nil, fmt.Errorf("implPoly: op %s", t.Op)
	}
	if err != nil {
		return nil, err
	}
	memo[t] = p
	return p, nil
}

func (q *eqCheck) refPoly(n *ref.N, open map[*sym.Term]bool, memo map[*ref.N]poly.Poly) (poly.Poly, error) {
	if p, ok := memo[n]; ok {
		return p, nil
	}
	var p poly.Poly
	var err error
	if a, ok := q.cutImpl[n]; ok && !open[a] {
		q.byID[a.ID] = a
		p = poly.Var(a.ID)
		memo[n] = p
		return p, nil
	}
	switch n.Op {
	case ref.OConst:
		p = poly.Const(q.liftConst(n.K))
	case ref.OVar:
		a := n.V.(*sym.Term)
		q.byID[a.ID] = a
		p = poly.Var(a.ID)
	case ref.OAdd, ref.OSub, ref.OMul:
		var a, b poly.Poly
		if a, err = q.refPoly(n.A, open, memo); err != nil {
			return nil, err
		}
		if b, err = q.refPoly(n.B, open, memo); err != nil {
			return nil, err
		}
		switch n.Op {
		case ref.OAdd:
			p = poly.Add(a, b)
		case ref.OSub:
			p = poly.Sub(a, b)
		default:
			p, err = poly.Mul(a, b)
		}
	case ref.OIte:
		var c, x, y, m poly.Poly
		if c, err = q.refPoly(n.A, open, memo); err != nil {
			return nil, err
		}
		if x, err = q.refPoly(n.B, open, memo); err != nil {
			return nil, err
		}
		if y, err = q.refPoly(n.C, open, memo); err != nil {
			return nil, err
		}
		if m, err = poly.Mul(c, poly.Sub(x, y)); err != nil {
			return nil, err
		}
		p = poly.Add(y, m)
	default:
		return nil, fmt.Errorf("reference node %d (op %d) has no implementation counterpart yet", n.ID, n.Op)
	}
	if err != nil {
		return nil, err
	}
	memo[n] = p
	return p, nil
}

// ---- SMT printing of the two sides ------------------------------------------------------------

type pairEmitter struct {
	q      *eqCheck
	sb     strings.Builder
	open   map[*sym.Term]bool
	inames map[*sym.Term]string
	rnames map[*ref.N]string
	decl   map[string]bool
}

func (pe *pairEmitter) declare(a *sym.Term) string {
	nm := a.Name
	if a.Op != sym.OpAtom {
		nm = fmt.Sprintf("o%d", a.ID)
	}
	if !pe.decl[nm] {
		pe.decl[nm] = true
		fmt.Fprintf(&pe.sb, "(declare-const %s Int)\n", nm)
		if a.Hi.Cmp(big.NewInt(1)) == 0 {
			fmt.Fprintf(&pe.sb, "(assert (or (= %s 0) (= %s 1)))\n", nm, nm)
		}
	}
	if a.Op != sym.OpAtom {
		return fmt.Sprintf("o%d", a.ID)
	}
	return a.Name
}

func (pe *pairEmitter) impl(t *sym.Term) string {
	if s, ok := pe.inames[t]; ok {
		return s
	}
	var s string
	if _, proven := pe.q.cutRef[t]; proven && !pe.open[t] && t.Op != sym.OpAtom && t.Op != sym.OpConst && !pe.q.top[t] {
		s = pe.declare(t)
		pe.inames[t] = s
		return s
	}
	switch t.Op {
	case sym.OpConst:
		s = smtLit(pe.q.liftConst(t.C))
	case sym.OpAtom:
		_, proven := pe.q.cutRef[t]
		if cv, isConst := pe.q.constCut[t]; isConst && !pe.q.top[t] && !pe.open[t] {
			s = smtLit(pe.q.liftConst(cv))
		} else if t.Def != nil && (!proven || pe.open[t] || pe.open[pe.q.rep(t)]) {
			s = pe.impl(t.Def)
		} else {
			s = pe.declare(pe.q.rep(t))
		}
	case sym.OpIsZero, sym.OpUF:
		s = pe.declare(t)
	case sym.OpAdd, sym.OpSub, sym.OpMul:
		a, b := pe.impl(t.Args[0]), pe.impl(t.Args[1])
		s = fmt.Sprintf("i%d", t.ID)
		fmt.Fprintf(&pe.sb, "(define-fun %s () Int (%s %s %s))\n", s, t.Op, a, b)
	case sym.OpIte:
		c, x, y := pe.impl(t.Args[0]), pe.impl(t.Args[1]), pe.impl(t.Args[2])
		s = fmt.Sprintf("i%d", t.ID)
		fmt.Fprintf(&pe.sb, "(define-fun %s () Int (ite (= %s 1) %s %s))\n", s, c, x, y)
	default:
		panic("pairEmitter: op " + t.Op.String())
	}
	pe.inames[t] = s
	return s
}

func (pe *pairEmitter) ref(n *ref.N) string {
	if s, ok := pe.rnames[n]; ok {
		return s
	}
	var s string
	if a, ok := pe.q.cutImpl[n]; ok && !pe.open[a] {
		if a.Op == sym.OpAtom {
			s = pe.declare(a)
		} else {
			s = pe.impl(a)
		}
		pe.rnames[n] = s
		return s
	}
	switch n.Op {
	case ref.OConst:
		s = smtLit(pe.q.liftConst(n.K))
	case ref.OVar:
		s = pe.declare(n.V.(*sym.Term))
	case ref.OAdd, ref.OSub, ref.OMul:
		a, b := pe.ref(n.A), pe.ref(n.B)
		op := map[ref.Op]string{ref.OAdd: "+", ref.OSub: "-", ref.OMul: "*"}[n.Op]
		s = fmt.Sprintf("r%d", n.ID)
		fmt.Fprintf(&pe.sb, "(define-fun %s () Int (%s %s %s))\n", s, op, a, b)
	case ref.OIte:
		c, x, y := pe.ref(n.A), pe.ref(n.B), pe.ref(n.C)
		s = fmt.Sprintf("r%d", n.ID)
		fmt.Fprintf(&pe.sb, "(define-fun %s () Int (ite (= %s 1) %s %s))\n", s, c, x, y)
	default:
		panic(fmt.Sprintf("pairEmitter: reference node %d op %d not cut", n.ID, n.Op))
	}
	pe.rnames[n] = s
	return s
}

func smtLit(c *big.Int) string {
	if c.Sign() < 0 {
		return "(- " + new(big.Int).Neg(c).String() + ")"
	}
	return c.String()
}

// ---- proving one pair -------------------------------------------------------------------------

// provePair adds the obligation impl(t) == ref(n) (mod p) if the untrusted polynomial check finds
// an identity (possibly after unfolding cut points); returns whether an obligation was added.
func (q *eqCheck) provePair(label string, t *sym.Term, n *ref.N) bool {
	open := map[*sym.Term]bool{}
	for attempt := 0; attempt < 24; attempt++ {
		im, rm := map[*sym.Term]poly.Poly{}, map[*ref.N]poly.Poly{}
		pi, err := q.implPoly(t, open, im)
		if err != nil {
			if os.Getenv("VERIF_SWEEPDBG") == "2" {
				fmt.Fprintf(os.Stderr, "  provePair %s attempt %d: impl poly: %v\n", label, attempt, err)
			}
			return false
		}
		pr, err := q.refPoly(n, open, rm)
		if err != nil {
			if os.Getenv("VERIF_SWEEPDBG") == "2" {
				fmt.Fprintf(os.Stderr, "  provePair %s attempt %d: ref poly: %v\n", label, attempt, err)
			}
			return false
		}
		d := poly.Sub(pi, pr)
		var K poly.Poly
		ok := d.IsZero()
		M := P
		if q.bigMod {
			M = R
		}
		if !ok {
			K, ok = d.DivisibleBy(M)
		}
		if ok {
			pe := &pairEmitter{q: q, open: open, inames: map[*sym.Term]string{}, rnames: map[*ref.N]string{}, decl: map[string]bool{}}
			is := pe.impl(t)
			rs := pe.ref(n)
			goal := fmt.Sprintf("(= %s %s)", is, rs)
			note := "pure integer identity"
			if K != nil {
				for id := range varsOf(K) {
					pe.declare(q.byID[id])
				}
				goal = fmt.Sprintf("(= (- %s %s) (* %s %s))", is, rs, M, K.SMT(func(id int) string { return pe.declare(q.byID[id]) }))
				note = "identity impl - ref = m*K with encoder-supplied K (m = the field modulus)"
			}
			script := pe.sb.String() + "(assert (not " + goal + "))"
			q.obs++
			q.r.Add(&Ob{Name: fmt.Sprintf("%s/%s", q.name, label), Family: q.family, Script: script, Bound: q.bound + "; " + note, Site: q.name, Solver: "cvc5", Fallback: []string{"z3-new", "z3"}, TO: 20 * time.Second,
				OnFail: func(res smt.Result) *Violation { return nil }})
			if attempt > 0 {
				q.Refined++
			}
			return true
		}
		if os.Getenv("VERIF_SWEEPDBG") == "2" {
			var vn []string
			for id := range varsOf(d) {
				a := q.byID[id]
				_, pv := q.cutRef[a]
				vn = append(vn, fmt.Sprintf("%s(proven=%v,def=%v)", a.Name, pv, a.Def != nil))
			}
			fmt.Fprintf(os.Stderr, "  provePair %s attempt %d: |impl|=%d |ref|=%d |D|=%d open=%d vars=%v\n", label, attempt, len(pi), len(pr), len(d), len(open), vn)
		}
		// refinement: unfold the proven cut atoms that occur in the difference
		added := false
		ids := make([]int, 0)
		for id := range varsOf(d) {
			ids = append(ids, id)
		}
		sort.Sort(sort.Reverse(sort.IntSlice(ids)))
		for _, id := range ids {
			a := q.byID[id]
			if a != nil && ((a.Op == sym.OpAtom && a.Def != nil) || a.Op == sym.OpMul || a.Op == sym.OpAdd || a.Op == sym.OpSub) && !open[a] {
				if _, proven := q.cutRef[a]; proven {
					open[a] = true
					added = true
					if attempt < 8 {
						break // first one cut point at a time (most recently created first), later all of them
					}
				}
			}
		}
		if !added {
			return false
		}
	}
	return false
}

func varsOf(p poly.Poly) map[int]bool {
	out := map[int]bool{}
	for k := range p {
		if k == "" {
			continue
		}
		for _, s := range strings.Split(k, ",") {
			var id int
			fmt.Sscanf(s, "%d", &id)
			out[id] = true
		}
	}
	return out
}

// rep returns the representative of t's equivalence class (the first implementation term proved
// equal to the same reference node), t itself if it has none.
func (q *eqCheck) rep(t *sym.Term) *sym.Term {
	if n, ok := q.cutRef[t]; ok {
		if r, ok := q.cutImpl[n]; ok && r.Op == sym.OpAtom && t.Op == sym.OpAtom {
			return r
		}
	}
	return t
}

func (q *eqCheck) setCut(t *sym.Term, n *ref.N) {
	q.cutRef[t] = n
	if _, ok := q.cutImpl[n]; !ok {
		q.cutImpl[n] = t
	}
}

// sweepDefs walks the implementation's defined atoms (creation order) and establishes cut points.
func (q *eqCheck) sweepDefs(defs []*sym.Term) {
	if q.sigIdx == nil {
		q.indexRef()
	}
	for _, m := range defs {
		if _, done := q.cutRef[m]; done {
			continue
		}
		if m.Def != nil {
			q.resolveOpaques(m.Def)
		} else if len(m.Aux) == 1 {
			q.resolveOpaques(m.Aux[0])
		}
		// constant sweeping: an atom whose value is the same constant at all sample points is
		// first tried against that constant
		if m.Def != nil {
			v0 := new(big.Int).Mod(q.implEval(0, m), q.modOf(false))
			same := true
			for i := 1; i < q.rounds; i++ {
				if new(big.Int).Mod(q.implEval(i, m), q.modOf(false)).Cmp(v0) != 0 {
					same = false
				}
			}
			if same {
				cn := q.rb.Const(v0)
				q.Tried++
				if q.bigMod {
					cn = q.rb.ConstR(v0)
				}
				if q.provePair(fmt.Sprintf("cut-const#%d", m.ID), m, cn) {
					q.constCut[m] = v0
					q.Proved++
					continue
				}
			}
		}
		cands := q.filterByEdge(m, q.sigIdx[q.implSig(m)])
		if len(cands) == 0 {
			if os.Getenv("VERIF_SWEEPDBG") == "2" {
				fmt.Fprintf(os.Stderr, "  no reference node has the signature of %s (%s) site %s\n", m.Name, m.Kind, firstFrame(m.Site))
			}
			continue
		}
		q.Tried++
		okc := false
		for ci, n := range cands {
			if ci >= 4 {
				break
			}
			if m.Def != nil {
				if q.provePair(fmt.Sprintf("cut#%d", m.ID), m, n) {
					q.setCut(m, n)
					okc = true
					break
				}
			} else if m.Kind == "inverse" {
				if n.Op != ref.OInv {
					continue
				}
				if q.provePair(fmt.Sprintf("cut-inv#%d", m.ID), m.Aux[0], n.A) {
					q.setCut(m, n)
					okc = true
					break
				}
			}
		}
		if okc {
			q.Proved++
		} else {
			q.GaveUp++
			if os.Getenv("VERIF_SWEEPDBG") != "" && q.GaveUp <= 5 {
				fmt.Fprintf(os.Stderr, "sweep %s: gave up on atom %s (%s) site %s, %d candidates\n", q.name, m.Name, m.Kind, m.Site, len(cands))
			}
		}
	}
}

// matchOpaque establishes cuts for IsZero / UF terms by congruence of their arguments.
func (q *eqCheck) matchOpaque(t *sym.Term) bool {
	if _, ok := q.cutRef[t]; ok {
		return true
	}
	if q.sigIdx == nil {
		q.indexRef()
	}
	// candidates: reference nodes of the same kind whose ARGUMENTS have the signatures of the
	// implementation's arguments (the value of an IsZero / hash node itself discriminates poorly)
	if q.opaqueIdx == nil {
		q.opaqueIdx = map[string][]*ref.N{}
		for _, n := range q.rb.All {
			switch n.Op {
			case ref.OIsZero:
				k := "isz|" + q.refSig(n.A)
				q.opaqueIdx[k] = append(q.opaqueIdx[k], n)
			case ref.OUF:
				k := fmt.Sprintf("uf|%s|%d", n.Name, n.Idx)
				for _, a := range n.Args {
					k += "|" + q.refSig(a)
				}
				q.opaqueIdx[k] = append(q.opaqueIdx[k], n)
			}
		}
	}
	var key string
	if t.Op == sym.OpIsZero {
		key = "isz|" + q.implSig(t.Args[0])
	} else {
		key = fmt.Sprintf("uf|%s|%d", t.Name, t.Idx)
		for _, a := range t.Args {
			key += "|" + q.implSig(a)
		}
	}
	if os.Getenv("VERIF_SWEEPDBG") == "2" && len(q.opaqueIdx[key]) == 0 {
		fmt.Fprintf(os.Stderr, "  matchOpaque: no reference %s node whose arguments have the signatures of o%d (%s_%d, %d args)\n", t.Op, t.ID, t.Name, t.Idx, len(t.Args))
	}
	for ci, n := range q.opaqueIdx[key] {
		if ci >= 3 {
			break
		}
		switch {
		case t.Op == sym.OpIsZero && n.Op == ref.OIsZero:
			if q.equal(fmt.Sprintf("iszero-arg#%d", t.ID), t.Args[0], n.A) {
				q.setCut(t, n)
				return true
			}
		case t.Op == sym.OpUF && n.Op == ref.OUF && t.Name == n.Name && t.Idx == n.Idx && len(t.Args) == len(n.Args):
			all := true
			for i := range t.Args {
				if !q.equal(fmt.Sprintf("uf-arg#%d.%d", t.ID, i), t.Args[i], n.Args[i]) {
					all = false
					break
				}
			}
			if all {
				q.setCut(t, n)
				return true
			}
		}
	}
	return false
}

// resolveOpaques establishes cuts for the IsZero / UF terms below t (down to proven cut atoms).
func (q *eqCheck) resolveOpaques(t *sym.Term) {
	var opaque []*sym.Term
	seen := map[*sym.Term]bool{}
	var walk func(x *sym.Term)
	walk = func(x *sym.Term) {
		if seen[x] {
			return
		}
		seen[x] = true
		if x.Op == sym.OpIsZero || x.Op == sym.OpUF {
			opaque = append(opaque, x)
			return
		}
		if x.Op == sym.OpAtom {
			if _, proven := q.cutRef[x]; !proven && x.Def != nil {
				walk(x.Def)
			}
			return
		}
		for _, a := range x.Args {
			walk(a)
		}
	}
	walk(t)
	for _, o := range opaque {
		q.matchOpaque(o)
	}
	return
}

// equal proves impl term == ref node, first resolving opaque sub-terms.
func (q *eqCheck) equal(label string, t *sym.Term, n *ref.N) bool {
	q.resolveOpaques(t)
	if t.Op == sym.OpIsZero || t.Op == sym.OpUF {
		if c, ok := q.cutRef[t]; ok && c == n {
			return true
		}
	}
	return q.provePair(label, t, n)
}

// output proves an output pair; on failure it looks for a sample point where the two sides differ
// and returns it (nil, false = could not decide).
func (q *eqCheck) output(label string, t *sym.Term, n *ref.N) (ok bool, diffRound int) {
	// cut points at the non-linear API-level nodes above the atoms (e.g. products of selector bits)
	q.resolveOpaques(t)
	q.sweepTerms([]*sym.Term{t})
	if q.equal("out:"+label, t, n) {
		return true, -1
	}
	for i := 0; i < q.rounds+edgeRounds; i++ {
		m := q.modOf(false)
		a := new(big.Int).Mod(q.implEval(i, t), m)
		b := q.refEval(i, n)
		if a.Cmp(b) != 0 {
			return false, i
		}
	}
	q.failed = append(q.failed, label)
	return false, -1
}

func (q *eqCheck) stats() map[string]any {
	return map[string]any{"check": q.name, "cut_points_proved": q.Proved, "candidates_tried": q.Tried, "refined": q.Refined, "given_up": q.GaveUp, "obligations": q.obs, "ref_nodes": len(q.rb.All)}
}

// sweepTerms establishes cut points at the non-linear nodes (products of two non-constants) of a
// hook-free implementation DAG, in topological order.
func (q *eqCheck) sweepTerms(roots []*sym.Term) {
	if q.sigIdx == nil {
		q.indexRef()
	}
	seen := map[*sym.Term]bool{}
	var order []*sym.Term
	type fr struct {
		t *sym.Term
		i int
	}
	for _, r := range roots {
		st := []fr{{r, 0}}
		for len(st) > 0 {
			f := &st[len(st)-1]
			if seen[f.t] {
				st = st[:len(st)-1]
				continue
			}
			if f.i < len(f.t.Args) {
				k := f.t.Args[f.i]
				f.i++
				if !seen[k] {
					st = append(st, fr{k, 0})
				}
				continue
			}
			seen[f.t] = true
			order = append(order, f.t)
			st = st[:len(st)-1]
		}
	}
	for _, t := range order {
		if t.Op != sym.OpMul || t.Args[0].IsConst() || t.Args[1].IsConst() {
			continue
		}
		if _, done := q.cutRef[t]; done {
			continue
		}
		cands := q.filterByEdge(t, q.sigIdx[q.implSig(t)])
		if len(cands) == 0 {
			continue
		}
		q.Tried++
		ok := false
		for ci, n := range cands {
			if ci >= 3 {
				break
			}
			q.top[t] = true
			pr := q.provePair(fmt.Sprintf("cut-node#%d", t.ID), t, n)
			delete(q.top, t)
			if pr {
				q.setCut(t, n)
				ok = true
				break
			}
		}
		if ok {
			q.Proved++
		} else {
			q.GaveUp++
		}
	}
}

type polyT = poly.Poly

func polySub(a, b poly.Poly) poly.Poly { return poly.Sub(a, b) }

// refExact prints reference nodes with their exact GF(p) / F_r semantics (for direct
// counterexample queries against the contract-level implementation encoding). Variables print as
// the implementation atom they are bound to; inverses as invGL, as on the implementation side.
type refExact struct {
	sb    *strings.Builder
	names map[*ref.N]string
	ufs   map[string]bool
	atom  func(*sym.Term) string
}

func (x *refExact) ref(n *ref.N) string {
	if s, ok := x.names[n]; ok {
		return s
	}
	m := P
	if n.BigMod {
		m = R
	}
	var s string
	switch n.Op {
	case ref.OConst:
		s = n.K.String()
	case ref.OVar:
		s = x.atom(n.V.(*sym.Term))
		if !n.BigMod {
			nm := fmt.Sprintf("rx%d", n.ID)
			fmt.Fprintf(x.sb, "(define-fun %s () Int (mod %s %s))\n", nm, s, P)
			s = nm
		}
	case ref.OAdd, ref.OSub, ref.OMul:
		a, b := x.ref(n.A), x.ref(n.B)
		op := map[ref.Op]string{ref.OAdd: "+", ref.OSub: "-", ref.OMul: "*"}[n.Op]
		s = fmt.Sprintf("rx%d", n.ID)
		fmt.Fprintf(x.sb, "(define-fun %s () Int (mod (%s %s %s) %s))\n", s, op, a, b, m)
	case ref.OInv:
		a := x.ref(n.A)
		if !x.ufs["invGL"] {
			x.ufs["invGL"] = true
			x.sb.WriteString("(declare-fun invGL (Int) Int)\n")
		}
		s = fmt.Sprintf("rx%d", n.ID)
		fmt.Fprintf(x.sb, "(define-fun %s () Int (invGL %s))\n", s, a)
	case ref.OIsZero:
		a := x.ref(n.A)
		s = fmt.Sprintf("rx%d", n.ID)
		fmt.Fprintf(x.sb, "(define-fun %s () Int (ite (= %s 0) 1 0))\n", s, a)
	case ref.OIte:
		c, a, b := x.ref(n.A), x.ref(n.B), x.ref(n.C)
		s = fmt.Sprintf("rx%d", n.ID)
		fmt.Fprintf(x.sb, "(define-fun %s () Int (ite (= %s 1) %s %s))\n", s, c, a, b)
	case ref.OUF:
		fn := fmt.Sprintf("%s_%d", n.Name, n.Idx)
		if !x.ufs[fn] {
			x.ufs[fn] = true
			fmt.Fprintf(x.sb, "(declare-fun %s (%s) Int)\n", fn, strings.TrimSpace(strings.Repeat("Int ", len(n.Args))))
		}
		parts := make([]string, len(n.Args))
		for i, a := range n.Args {
			parts[i] = x.ref(a)
		}
		s = fmt.Sprintf("rx%d", n.ID)
		fmt.Fprintf(x.sb, "(define-fun %s () Int (%s %s))\n", s, fn, strings.Join(parts, " "))
	}
	x.names[n] = s
	return s
}

// directQuery builds "exists inputs: impl output != ref output" on the exact encodings (expected
// unsat). Only sensible for small functions; used when sweeping finds neither a proof nor a
// differing sample point.
func (q *eqCheck) directQuery(t *sym.Term, n *ref.N) (script string, atoms []*sym.Term) {
	em := sym.NewEmitter()
	em.DefMode = true
	em.ModWrap = true
	on := em.Ref(t)
	var sb strings.Builder
	rx := &refExact{sb: &sb, names: map[*ref.N]string{}, ufs: map[string]bool{}, atom: func(a *sym.Term) string { return em.Ref(a) }}
	// the reference may mention atoms the implementation output does not depend on
	rn := rx.ref(n)
	m := P
	if q.bigMod {
		m = R
	}
	script = em.String() + sb.String() + fmt.Sprintf("(assert (not (= (mod %s %s) (mod %s %s))))", on, m, rn, m)
	// invGL on both sides is the same symbol; declare once
	if strings.Count(script, "(declare-fun invGL") > 1 {
		i := strings.LastIndex(script, "(declare-fun invGL (Int) Int)\n")
		script = script[:i] + script[i+len("(declare-fun invGL (Int) Int)\n"):]
	}
	return script, em.AtomsSeen
}
