package main

import (
	"fmt"
	"math/big"
	"strings"

	"github.com/consensys/gnark/frontend"
	"github.com/wormhole-foundation/example-near-light-client/fri"
	gl "github.com/wormhole-foundation/example-near-light-client/goldilocks"
	"github.com/wormhole-foundation/example-near-light-client/plonk"
	"github.com/wormhole-foundation/example-near-light-client/plonk/gates"
	"github.com/wormhole-foundation/example-near-light-client/poseidon"
	"github.com/wormhole-foundation/example-near-light-client/variables"

	"verif/engine/ref"
	"verif/engine/smt"
	"verif/engine/sym"
)

func init() { drivers["C01"] = runC01 }

// C01 composes the component equivalences (C11 transcript, C16 PLONK identity, C13 query-round
// algebra, C12 Merkle openings, C14 proof of work, C17 canonicity, C15 gates) into the statement
// "VerifierChip.Verify accepts exactly what plonky2's verifier accepts" by checking the WIRING of
// the real Verify on the real shapes: every sub-verifier receives exactly the proof data,
// challenges, caps and circuit constants that plonky2's verifier prescribes, and no proof element
// is left out of every condition.
func runC01(r *Run) {
	r.Functions = []string{"verifier.(*VerifierChip).Verify", "verifier.(*VerifierChip).{GetPublicInputsHash,GetChallenges,rangeCheckProof}", "verifier.NewVerifierChip", "plonk.NewPlonkChip", "fri.(*Chip).{VerifyFriProof,GetInstance,ToOpenings,fromOpeningsAndAlpha,verifyQueryRound,verifyInitialProof}", "verifier.(*VerifierCircuit).Define", "verifier.(*CircuitFixed).Define"}
	names := []string{"test_circuit"}
	if r.Thorough() {
		names = append(names, "random/CGZPhFRkL3NvmGaXWBc6N7qJD519EUe6vyNpaEyDe2Ev", "epoch/CbAHBGJ8VQot2m6KhH9PLasMgcDtkPJBfp9bjAEMJ8UK")
	}
	for _, nm := range names {
		base := loadInstance(r.Repo, nm)
		ks := []int{2}
		if r.Thorough() {
			ks = []int{1, 2, 28}
		}
		for _, k := range ks {
			in := base
			if k < len(base.Proof.Proof.OpeningProof.QueryRoundProofs) {
				in = base.restrict(k)
			}
			for _, wr := range []string{"verifier", "fixed"} {
				if wr == "fixed" && len(in.RawPis) != 16 {
					continue
				}
				c01One(r, in, wr)
				r.Discharge()
			}
		}
	}
	r.Bounds["instances"] = "quick: test_circuit k=2, both wrappers; thorough: three templates (two inner circuits), k in {1,2,28}"
	r.Bounds["values"] = "wiring obligations are identities between the argument terms of the sub-verifiers and the prescribed circuit inputs / challenge terms (all values symbolic)"
	r.Assumptions = append(r.Assumptions,
		"composition: C11 (challenges = plonky2 transcript), C16 (PLONK identity), C15 (gate polynomials and filters), C13 (query-round algebra), C12 (Merkle openings and their wiring inside a round), C14 (proof of work), C17 (canonical encodings), C09/C10 (hash functions) -- each decided by its own check; this check decides that Verify feeds them the prescribed data and leaves no proof element unused",
		"that tampering with a value which IS used by the conditions leads to rejection rests on the hash functions (Poseidon collision resistance) and on the soundness of plonky2 itself: not a logical validity, not claimed")
	r.Outside = append(r.Outside, "cryptographic soundness (collision resistance, FRI soundness)", "shapes other than the listed templates")
}

type c01Capture struct {
	plonkCh  *variables.ProofChallenges
	plonkOp  *variables.OpeningSet
	plonkPIH *poseidon.GoldilocksHashOut
	pihIn    []gl.Variable
	pihOut   *poseidon.GoldilocksHashOut
	chOut    *variables.ProofChallenges
	chProof  *variables.Proof
	chVD     *variables.VerifierOnlyCircuitData
	friInst  *fri.InstanceInfo
	friOpen  *fri.Openings
	friCh    *variables.FriChallenges
	friCaps  []variables.FriMerkleCap
	friProof *variables.FriProof
	pow      []*sym.Term
	rounds   []c01Round
	plonkChip *plonk.PlonkChip
}

type c01Round struct {
	xIndex *sym.Term
	round  *variables.FriQueryRound
	proof  *variables.FriProof
	caps   []variables.FriMerkleCap
	pre    []gl.QuadraticExtensionVariable
	ch     *variables.FriChallenges
}

func c01One(r *Run, in *instance, wr string) {
	var cp c01Capture
	extra := transcriptHooks()
	extra["verifier.VerifierChip.GetPublicInputsHash"] = observe2("verifier.VerifierChip.GetPublicInputsHash", func(recv any, args []any) {
		cp.pihIn = args[0].([]gl.Variable)
	}, func(res []any) { h := res[0].(poseidon.GoldilocksHashOut); cp.pihOut = &h })
	extra["verifier.VerifierChip.GetChallenges"] = observe2("verifier.VerifierChip.GetChallenges", func(recv any, args []any) {
		p := args[0].(variables.Proof)
		cp.chProof = &p
		v := args[2].(variables.VerifierOnlyCircuitData)
		cp.chVD = &v
	}, func(res []any) { c := res[0].(variables.ProofChallenges); cp.chOut = &c })
	extra["plonk.PlonkChip.Verify"] = observe("plonk.PlonkChip.Verify", func(recv any, args []any) {
		cp.plonkChip = recv.(*plonk.PlonkChip)
		c := args[0].(variables.ProofChallenges)
		cp.plonkCh = &c
		o := args[1].(variables.OpeningSet)
		cp.plonkOp = &o
		h := args[2].(poseidon.GoldilocksHashOut)
		cp.plonkPIH = &h
	})
	extra["fri.Chip.VerifyFriProof"] = observe("fri.Chip.VerifyFriProof", func(recv any, args []any) {
		i := args[0].(fri.InstanceInfo)
		cp.friInst = &i
		o := args[1].(fri.Openings)
		cp.friOpen = &o
		cp.friCh = args[2].(*variables.FriChallenges)
		cp.friCaps = args[3].([]variables.FriMerkleCap)
		cp.friProof = args[4].(*variables.FriProof)
	})
	extra["fri.Chip.assertLeadingZeros"] = observe("fri.Chip.assertLeadingZeros", func(recv any, args []any) {
		cp.pow = append(cp.pow, cur.K(args[0].(gl.Variable).Limb))
	})
	extra["fri.Chip.verifyQueryRound"] = observe("fri.Chip.verifyQueryRound", func(recv any, args []any) {
		cp.rounds = append(cp.rounds, c01Round{ch: args[1].(*variables.FriChallenges), pre: args[2].([]gl.QuadraticExtensionVariable), caps: args[3].([]variables.FriMerkleCap), proof: args[4].(*variables.FriProof), xIndex: cur.K(args[5].(gl.Variable).Limb), round: args[8].(*variables.FriQueryRound)})
	})
	w := walkVerifier(in, walkOpts{Wrapper: wr, Cap: capPlain, Field: true, PermGL: true, PermBN: true, NoShape: true, Extra: extra})
	if w.Panic != "" || w.Err != nil {
		walkFailed(r, in, wr, w)
		return
	}
	e := w.E
	tag := in.Name + "/" + wr
	if cp.plonkCh == nil || cp.friProof == nil || cp.chOut == nil || cp.pihOut == nil {
		r.addViolationStructural("verifier skips a sub-verifier", fmt.Sprintf("%s: Verify does not call all of GetPublicInputsHash / GetChallenges / PlonkChip.Verify / VerifyFriProof (called: hash=%v challenges=%v plonk=%v fri=%v)", tag, cp.pihOut != nil, cp.chOut != nil, cp.plonkCh != nil, cp.friProof != nil))
		return
	}
	var proof variables.Proof
	var pis []gl.Variable
	var vd variables.VerifierOnlyCircuitData
	if wr == "fixed" {
		proof, pis, vd = w.FC.ProofWithPis.Proof, w.FC.ProofWithPis.PublicInputs, w.FC.VerifierData
	} else {
		proof, pis, vd = w.VC.Proof, w.VC.PublicInputs, w.VC.VerifierData
	}
	nOb := 0
	// wiring obligation: the two term lists are identical (atoms abstracted: an identity between inputs)
	wire := func(label string, got, want []*sym.Term) {
		if len(got) != len(want) {
			r.addViolationDirect("verifier wiring: "+label, fmt.Sprintf("%s: %s has %d elements, plonky2's verifier prescribes %d", tag, label, len(got), len(want)), in, wr)
			return
		}
		if len(got) == 0 {
			return
		}
		em := sym.NewEmitter()
		em.DefMode = true
		em.Abstract = func(t *sym.Term) bool { return t.Op == sym.OpUF || (t.Op == sym.OpAtom && t.Def == nil) }
		var eqs []string
		for i := range got {
			eqs = append(eqs, fmt.Sprintf("(= %s %s)", em.Ref(got[i]), em.Ref(want[i])))
		}
		em.Assert("(not (and " + strings.Join(eqs, " ") + "))")
		nOb++
		lb := label
		r.Add(&Ob{Name: fmt.Sprintf("wiring[%s] %s", tag, label), Family: "verifier-wiring", Script: em.String(), Site: "verifier wiring: " + label, Bound: tag,
			OnFail: func(res smt.Result) *Violation {
				cr := &circuitReplay{Kind: "circuit", Wrapper: wr, Instance: in.Base, K: in.K, Expect: "rejected"}
				acc, msg := runCircuitReplay(cr, r.Repo)
				if acc {
					r.Note("%s: %s differs from the prescription but the honest proof is still accepted by the real circuit", tag, lb)
					return nil
				}
				return &Violation{What: fmt.Sprintf("%s: %s is not what plonky2's verifier prescribes; the real circuit rejects the honest proof (%s)", tag, lb, short(msg, 100)), Replay: toMap(cr), Outcome: "real circuit (test.IsSolved) rejects the unmodified valid proof"}
			}})
	}
	glT := func(vs []gl.Variable) []*sym.Term {
		var o []*sym.Term
		for _, v := range vs {
			o = append(o, e.K(v.Limb))
		}
		return o
	}
	qeT := func(vs []gl.QuadraticExtensionVariable) []*sym.Term {
		var o []*sym.Term
		for _, v := range vs {
			o = append(o, e.K(v[0].Limb), e.K(v[1].Limb))
		}
		return o
	}
	fvT := func(vs []frontend.Variable) []*sym.Term {
		var o []*sym.Term
		for _, v := range vs {
			o = append(o, e.K(v))
		}
		return o
	}
	chT := func(c *variables.ProofChallenges) []*sym.Term {
		o := append(append(append([]*sym.Term{}, glT(c.PlonkBetas)...), glT(c.PlonkGammas)...), glT(c.PlonkAlphas)...)
		o = append(o, qeT([]gl.QuadraticExtensionVariable{c.PlonkZeta})...)
		return append(o, friChT(e, &c.FriChallenges)...)
	}
	opT := func(o *variables.OpeningSet) []*sym.Term {
		var out []*sym.Term
		for _, l := range [][]gl.QuadraticExtensionVariable{o.Constants, o.PlonkSigmas, o.Wires, o.PlonkZs, o.PlonkZsNext, o.PartialProducts, o.QuotientPolys} {
			out = append(out, qeT(l)...)
		}
		return out
	}
	// 1. public-input hash and transcript inputs
	wire("public inputs hashed", glT(cp.pihIn), glT(pis))
	wire("proof absorbed by the transcript", append(append(fvT(cp.chProof.WiresCap), fvT(cp.chProof.PlonkZsPartialProductsCap)...), append(fvT(cp.chProof.QuotientPolysCap), opT(&cp.chProof.Openings)...)...),
		append(append(fvT(proof.WiresCap), fvT(proof.PlonkZsPartialProductsCap)...), append(fvT(proof.QuotientPolysCap), opT(&proof.Openings)...)...))
	wire("verifier key absorbed by the transcript", append(fvT(cp.chVD.ConstantSigmasCap), e.K(cp.chVD.CircuitDigest)), append(fvT(vd.ConstantSigmasCap), e.K(vd.CircuitDigest)))
	// 2. PLONK check
	wire("challenges given to the PLONK check", chT(cp.plonkCh), chT(cp.chOut))
	wire("openings given to the PLONK check", opT(cp.plonkOp), opT(&proof.Openings))
	wire("public-input hash given to the PLONK check", glT(cp.plonkPIH[:]), glT(cp.pihOut[:]))
	// 3. FRI
	wire("FRI challenges", friChT(e, cp.friCh), friChT(e, &cp.chOut.FriChallenges))
	var wantCaps, gotCaps []*sym.Term
	for _, c := range []variables.FriMerkleCap{vd.ConstantSigmasCap, proof.WiresCap, proof.PlonkZsPartialProductsCap, proof.QuotientPolysCap} {
		wantCaps = append(wantCaps, fvT(c)...)
	}
	for _, c := range cp.friCaps {
		gotCaps = append(gotCaps, fvT(c)...)
	}
	wire("initial Merkle caps (constants/sigmas, wires, Zs/partial products, quotient)", gotCaps, wantCaps)
	// openings in to_fri_openings order
	var wantOpen []*sym.Term
	for _, l := range [][]gl.QuadraticExtensionVariable{proof.Openings.Constants, proof.Openings.PlonkSigmas, proof.Openings.Wires, proof.Openings.PlonkZs, proof.Openings.PartialProducts, proof.Openings.QuotientPolys} {
		wantOpen = append(wantOpen, qeT(l)...)
	}
	if len(cp.friOpen.Batches) != 2 {
		r.addViolationDirect("verifier wiring: FRI opening batches", fmt.Sprintf("%s: %d opening batches, expected 2", tag, len(cp.friOpen.Batches)), in, wr)
		return
	}
	wire("FRI openings at zeta", qeT(cp.friOpen.Batches[0].Values), wantOpen)
	wire("FRI openings at g*zeta", qeT(cp.friOpen.Batches[1].Values), qeT(proof.Openings.PlonkZsNext))
	// instance: points and polynomial lists
	lists := polyLists(&in.Common)
	if len(cp.friInst.Batches) != 2 {
		r.addViolationDirect("verifier wiring: FRI instance", fmt.Sprintf("%s: %d batches in the FRI instance, expected 2", tag, len(cp.friInst.Batches)), in, wr)
		return
	}
	for bi, b := range cp.friInst.Batches {
		ok := len(b.Polynomials) == len(lists[bi])
		for i := 0; ok && i < len(lists[bi]); i++ {
			if int(b.Polynomials[i].OracleIndex) != lists[bi][i][0] || int(b.Polynomials[i].PolynomialInfo) != lists[bi][i][1] {
				ok = false
			}
		}
		if !ok {
			r.addViolationDirect("verifier wiring: FRI polynomial list", fmt.Sprintf("%s: polynomial list of FRI batch %d differs from plonky2's fri_all_polys / fri_zs_polys", tag, bi), in, wr)
		}
	}
	wire("FRI point zeta", qeT([]gl.QuadraticExtensionVariable{cp.friInst.Batches[0].Point}), qeT([]gl.QuadraticExtensionVariable{cp.chOut.PlonkZeta}))
	// g*zeta: compare with the reference product through the sweep machinery
	{
		rb := ref.NewB()
		z := cp.chOut.PlonkZeta
		z0, z1 := e.K(z[0].Limb), e.K(z[1].Limb)
		rz := ref.E{rb.Var(z0, "zeta0"), rb.Var(z1, "zeta1")}
		g := ref.PrimitiveRootOfUnity(uint(in.Common.DegreeBits))
		want := rb.EMul(rb.EFromBase(rb.Const(g)), rz)
		q := newEqCheck(r, "g*zeta["+tag+"]", "verifier-wiring", e, rb)
		q.bound = tag
		// zeta coordinates are hash outputs: treat them as cut variables
		q.setCut(z0, rz[0])
		q.setCut(z1, rz[1])
		pt := cp.friInst.Batches[1].Point
		for i, t := range []*sym.Term{e.K(pt[0].Limb), e.K(pt[1].Limb)} {
			if ok, _ := q.output(fmt.Sprint(i), t, want[i]); !ok {
				r.addViolationDirect("verifier wiring: FRI point g*zeta", fmt.Sprintf("%s: the second FRI opening point is not g*zeta (g the generator of the size-2^%d subgroup)", tag, in.Common.DegreeBits), in, wr)
				break
			}
		}
	}
	if cp.friProof != nil {
		var got, want []*sym.Term
		collect := func(fp *variables.FriProof) []*sym.Term {
			var o []*sym.Term
			for _, c := range fp.CommitPhaseMerkleCaps {
				o = append(o, fvT(c)...)
			}
			o = append(o, qeT(fp.FinalPoly.Coeffs)...)
			o = append(o, e.K(fp.PowWitness.Limb))
			for _, q := range fp.QueryRoundProofs {
				for _, ep := range q.InitialTreesProof.EvalsProofs {
					o = append(o, glT(ep.Elements)...)
					o = append(o, fvT(ep.MerkleProof.Siblings)...)
				}
				for _, st := range q.Steps {
					o = append(o, qeT(st.Evals)...)
					o = append(o, fvT(st.MerkleProof.Siblings)...)
				}
			}
			return o
		}
		got, want = collect(cp.friProof), collect(&proof.OpeningProof)
		wire("FRI proof given to the FRI verifier", got, want)
	}
	// 4. proof of work and query rounds
	if len(cp.pow) != 1 {
		r.addViolationStructural("verifier wiring: proof of work", fmt.Sprintf("%s: the proof-of-work condition is imposed %d times, expected once", tag, len(cp.pow)))
	} else {
		wire("proof-of-work response", cp.pow, []*sym.Term{e.K(cp.chOut.FriChallenges.FriPowResponse.Limb)})
	}
	nq := int(in.Common.Config.FriConfig.NumQueryRounds)
	if len(cp.rounds) != nq {
		r.addViolationStructural("verifier wiring: query rounds", fmt.Sprintf("%s: %d query rounds are verified, the configuration prescribes %d", tag, len(cp.rounds), nq))
	} else {
		var gotIdx, wantIdx, gotRound, wantRound []*sym.Term
		for i, rd := range cp.rounds {
			gotIdx = append(gotIdx, rd.xIndex)
			wantIdx = append(wantIdx, e.K(cp.chOut.FriChallenges.FriQueryIndices[i].Limb))
			for _, ep := range rd.round.InitialTreesProof.EvalsProofs {
				gotRound = append(gotRound, glT(ep.Elements)...)
			}
			for _, st := range rd.round.Steps {
				gotRound = append(gotRound, qeT(st.Evals)...)
			}
			for _, ep := range proof.OpeningProof.QueryRoundProofs[i].InitialTreesProof.EvalsProofs {
				wantRound = append(wantRound, glT(ep.Elements)...)
			}
			for _, st := range proof.OpeningProof.QueryRoundProofs[i].Steps {
				wantRound = append(wantRound, qeT(st.Evals)...)
			}
		}
		wire("query indices (i-th round uses the i-th index challenge)", gotIdx, wantIdx)
		wire("query round data (i-th round uses the i-th round proof)", gotRound, wantRound)
	}
	// 5. circuit-description constants reach the chips unchanged
	{
		kis := *fieldOf[[]gl.Variable](cp.plonkChip, "commonDataKIs")
		var got, want []*sym.Term
		for _, k := range kis {
			got = append(got, e.K(k.Limb))
		}
		for _, k := range in.Common.KIs {
			want = append(want, e.Const(new(big.Int).SetUint64(k)))
		}
		wire("coset shifts k_i of the permutation argument", got, want)
		egc := *fieldOf[*gates.EvaluateGatesChip](cp.plonkChip, "evaluateGatesChip")
		gs := *fieldOf[[]gates.Gate](egc, "gates")
		okG := len(gs) == len(in.Common.GateIds)
		for i := 0; okG && i < len(gs); i++ {
			// the gate built for position i must be the one its identifier describes (C18 / C15 decide what that is)
			if fmt.Sprintf("%T", gs[i]) != fmt.Sprintf("%T", gates.GateInstanceFromId(in.Common.GateIds[i])) || gs[i].Id() != gates.GateInstanceFromId(in.Common.GateIds[i]).Id() {
				okG = false
			}
		}
		si := *fieldOf[gates.SelectorsInfo](egc, "selectorsInfo")
		a, b := fmt.Sprintf("%v", si), fmt.Sprintf("%v", in.Common.SelectorsInfo)
		ngc := *fieldOf[uint64](egc, "numGateConstraints")
		if !okG || a != b || ngc != in.Common.NumGateConstraints {
			r.addViolationDirect("verifier wiring: gate list / selectors", fmt.Sprintf("%s: the gate list, selector layout or constraint count given to the gate evaluator differs from the common circuit data", tag), in, wr)
		}
	}
	// 6. no proof element is left out of every condition
	used := map[*sym.Term]bool{}
	var mark func(t *sym.Term)
	mark = func(t *sym.Term) {
		if used[t] {
			return
		}
		used[t] = true
		for _, a := range t.Args {
			mark(a)
		}
		if t.Def != nil {
			mark(t.Def)
		}
		for _, a := range t.Aux {
			mark(a)
		}
	}
	for _, c := range e.Cons {
		mark(c.A)
		if c.B != nil {
			mark(c.B)
		}
	}
	// range-checked atoms count as used by the range condition only; they must also occur elsewhere
	var unused []*leafInfo
	for _, l := range w.Leaves {
		if !used[l.Atom] {
			unused = append(unused, l)
		}
	}
	em := sym.NewEmitter()
	em.Raw("(declare-const unused_proof_elements Int)")
	em.Assert(fmt.Sprintf("(= unused_proof_elements %d)", len(unused)))
	em.Assert("(not (= unused_proof_elements 0))")
	r.Add(&Ob{Name: fmt.Sprintf("all-inputs-used[%s]", tag), Family: "verifier-wiring", Script: em.String(), Site: "proof element ignored by the verifier", Bound: fmt.Sprintf("%s: %d circuit inputs", tag, len(w.Leaves)),
		OnFail: func(res smt.Result) *Violation {
			for i, l := range unused {
				if i >= 3 {
					break
				}
				cr := &circuitReplay{Kind: "circuit", Wrapper: wr, Instance: in.Base, K: in.K, Expect: "accepted", Edits: []edit{{Path: l.Path, Add: "1"}}}
				if acc, _ := runCircuitReplay(cr, r.Repo); acc {
					return &Violation{Site: "proof element ignored by the verifier: " + stripIdx(l.Path), What: fmt.Sprintf("%s: %s (and %d more inputs) occurs in no condition of the circuit: the honest proof with this element + 1 is still accepted", tag, l.Path, len(unused)-1), Replay: toMap(cr), Outcome: "real circuit (test.IsSolved) accepts the tampered proof"}
				}
			}
			return nil
		}})
	r.Sample(map[string]any{"instance": in.Name, "wrapper": wr, "wiring_obligations": nOb + 1, "circuit_inputs": len(w.Leaves), "query_rounds_seen": len(cp.rounds)})
}

func friChT(e *sym.Ctx, c *variables.FriChallenges) []*sym.Term {
	o := []*sym.Term{e.K(c.FriAlpha[0].Limb), e.K(c.FriAlpha[1].Limb)}
	for _, b := range c.FriBetas {
		o = append(o, e.K(b[0].Limb), e.K(b[1].Limb))
	}
	o = append(o, e.K(c.FriPowResponse.Limb))
	for _, q := range c.FriQueryIndices {
		o = append(o, e.K(q.Limb))
	}
	return o
}
