package main

import (
	"encoding/json"
	"fmt"
	"os"
	"path/filepath"
	"reflect"
	"regexp"
	"regexp/syntax"
	"runtime"
	"sort"
	"strings"
	"time"
	"unicode/utf8"

	"github.com/wormhole-foundation/example-near-light-client/plonk/gates"
	"github.com/wormhole-foundation/example-near-light-client/types"

	"verif/engine/ref"
	"verif/engine/smt"
)

func init() { drivers["C18"] = runC18 }

func smtStr(s string) string {
	var sb strings.Builder
	sb.WriteByte('"')
	for _, r := range s {
		switch {
		case r == '"':
			sb.WriteString(`""`)
		case r < 32 || r > 126 || r == '\\':
			fmt.Fprintf(&sb, "\\u{%x}", r)
		default:
			sb.WriteRune(r)
		}
	}
	sb.WriteByte('"')
	return sb.String()
}

// reToSMT translates a Go regexp syntax tree into an SMT-LIB RegLan term.
func reToSMT(re *syntax.Regexp) (string, error) {
	switch re.Op {
	case syntax.OpEmptyMatch:
		return `(str.to_re "")`, nil
	case syntax.OpLiteral:
		if re.Flags&syntax.FoldCase != 0 {
			return "", fmt.Errorf("case-folding literal")
		}
		return "(str.to_re " + smtStr(string(re.Rune)) + ")", nil
	case syntax.OpCharClass:
		var parts []string
		for i := 0; i+1 < len(re.Rune); i += 2 {
			lo, hi := re.Rune[i], re.Rune[i+1]
			if hi > 0x2FFFF {
				hi = 0x2FFFF
			}
			parts = append(parts, fmt.Sprintf("(re.range %s %s)", smtStr(string(lo)), smtStr(string(hi))))
		}
		if len(parts) == 0 {
			return "re.none", nil
		}
		if len(parts) == 1 {
			return parts[0], nil
		}
		return "(re.union " + strings.Join(parts, " ") + ")", nil
	case syntax.OpAnyChar:
		return "re.allchar", nil
	case syntax.OpAnyCharNotNL:
		return `(re.diff re.allchar (str.to_re "\u{a}"))`, nil
	case syntax.OpCapture:
		return reToSMT(re.Sub[0])
	case syntax.OpStar, syntax.OpPlus, syntax.OpQuest:
		s, err := reToSMT(re.Sub[0])
		if err != nil {
			return "", err
		}
		op := map[syntax.Op]string{syntax.OpStar: "re.*", syntax.OpPlus: "re.+", syntax.OpQuest: "re.opt"}[re.Op]
		return "(" + op + " " + s + ")", nil
	case syntax.OpRepeat:
		s, err := reToSMT(re.Sub[0])
		if err != nil {
			return "", err
		}
		if re.Max < 0 {
			return fmt.Sprintf("(re.++ ((_ re.^ %d) %s) (re.* %s))", re.Min, s, s), nil
		}
		return fmt.Sprintf("((_ re.loop %d %d) %s)", re.Min, re.Max, s), nil
	case syntax.OpConcat, syntax.OpAlternate:
		var parts []string
		for _, sub := range re.Sub {
			s, err := reToSMT(sub)
			if err != nil {
				return "", err
			}
			parts = append(parts, s)
		}
		op := "re.++"
		if re.Op == syntax.OpAlternate {
			op = "re.union"
		}
		if len(parts) == 1 {
			return parts[0], nil
		}
		return "(" + op + " " + strings.Join(parts, " ") + ")", nil
	}
	return "", fmt.Errorf("regexp operator %v not supported (anchors / word boundaries)", re.Op)
}

const reNUM = `(re.union (str.to_re "0") (re.++ (re.range "1" "9") ((_ re.loop 0 19) (re.range "0" "9"))))`
const rePH = `(str.to_re "PhantomData<plonky2_field::goldilocks_field::GoldilocksField>")`

// idGrammar: the language of identifiers plonky2's Debug formatting emits for each supported gate
// (numerals without leading zeros, up to 20 digits), as RegLan; literals lists the fixed text
// between the numeric fields.
func idGrammar(kind string) (lang string, literals []string) {
	lit := func(s string) string { return "(str.to_re " + smtStr(s) + ")" }
	cat := func(parts ...string) string { return "(re.++ " + strings.Join(parts, " ") + ")" }
	ph := "PhantomData<plonky2_field::goldilocks_field::GoldilocksField>"
	mk := func(tmpl string) (string, []string) {
		// tmpl with # standing for a numeral
		segs := strings.Split(tmpl, "#")
		var parts []string
		for i, s := range segs {
			if s != "" {
				parts = append(parts, lit(s))
			}
			if i < len(segs)-1 {
				parts = append(parts, reNUM)
			}
		}
		if len(parts) == 1 {
			return parts[0], segs
		}
		return cat(parts...), segs
	}
	switch kind {
	case "Noop":
		return mk("NoopGate")
	case "PublicInput":
		return mk("PublicInputGate")
	case "Constant":
		return mk("ConstantGate { num_consts: # }")
	case "Arithmetic":
		return mk("ArithmeticGate { num_ops: # }")
	case "ArithmeticExtension":
		return mk("ArithmeticExtensionGate { num_ops: # }")
	case "MulExtension":
		return mk("MulExtensionGate { num_ops: # }")
	case "BaseSum":
		return mk("BaseSumGate { num_limbs: # } + Base: #")
	case "Reducing":
		return mk("ReducingGate { num_coeffs: # }")
	case "ReducingExtension":
		return mk("ReducingExtensionGate { num_coeffs: # }")
	case "RandomAccess":
		return mk("RandomAccessGate { bits: #, num_copies: #, num_extra_constants: #, _phantom: " + ph + " }<D=2>")
	case "Exponentiation":
		return mk("ExponentiationGate { num_power_bits: #, _phantom: " + ph + " }<D=2>")
	case "Poseidon":
		return mk("PoseidonGate(" + ph + ")<WIDTH=12>")
	case "PoseidonMds":
		return mk("PoseidonMdsGate(" + ph + ")<WIDTH=12>")
	case "CosetInterpolation":
		list := cat(reNUM, "(re.* "+cat(lit(", "), reNUM)+")")
		return cat(lit("CosetInterpolationGate { subgroup_bits: "), reNUM, lit(", degree: "), reNUM, lit(", barycentric_weights: ["), list, lit("], _phantom: "+ph+" }<D=2>")),
			[]string{"CosetInterpolationGate { subgroup_bits: ", ", degree: ", ", barycentric_weights: [", "], _phantom: " + ph + " }<D=2>"}
	}
	panic(kind)
}

var gateKinds = []string{"Noop", "PublicInput", "Constant", "Arithmetic", "ArithmeticExtension", "MulExtension", "BaseSum", "Reducing", "ReducingExtension", "RandomAccess", "Exponentiation", "Poseidon", "PoseidonMds", "CosetInterpolation"}

// handler function names the grammar's kinds must be routed to
var kindHandler = map[string]string{"Noop": "deserializeNoopGate", "PublicInput": "deserializePublicInputGate", "Constant": "deserializeConstantGate", "Arithmetic": "deserializeArithmeticGate", "ArithmeticExtension": "deserializeExtensionArithmeticGate", "MulExtension": "deserializeMulExtensionGate", "BaseSum": "deserializeBaseSumGate", "Reducing": "deserializeReducingGate", "ReducingExtension": "deserializeReducingExtensionGate", "RandomAccess": "deserializeRandomAccessGate", "Exponentiation": "deserializeExponentiationGate", "Poseidon": "deserializePoseidonGate", "PoseidonMds": "deserializePoseidonMdsGate", "CosetInterpolation": "deserializeCosetInterpolationGate"}

// realGateIDs: the gate identifiers of the repository's common-data files (well-formed examples).
var realGateIDs []string

func runC18(r *Run) {
	realGateIDs = nil
	for _, nm := range []string{"test_circuit", "random/CGZPhFRkL3NvmGaXWBc6N7qJD519EUe6vyNpaEyDe2Ev"} {
		realGateIDs = append(realGateIDs, loadInstance(r.Repo, nm).Common.GateIds...)
	}
	r.Functions = []string{"gates.gateRegexHandlers (the 14 compiled regular expressions, read from the package of the current tree)", "gates.GateInstanceFromId", "gates.deserialize*Gate (through C15: every gate of the grids is built from its identifier and proved equal to the reference polynomial with those parameters)", "types.ReadCommonCircuitData (hiding flag)"}
	tbl := *pvar[map[*regexp.Regexp]func(map[string]string) gates.Gate]("gates.gateRegexHandlers")
	type entry struct {
		re      *regexp.Regexp
		handler string
		smt     string
	}
	var ents []entry
	for re, h := range tbl {
		name := runtime.FuncForPC(reflect.ValueOf(h).Pointer()).Name()
		name = name[strings.LastIndex(name, ".")+1:]
		tree, err := syntax.Parse(re.String(), syntax.Perl)
		if err != nil {
			r.Infra("cannot parse regexp %q: %v", re.String(), err)
			return
		}
		s, err := reToSMT(tree.Simplify())
		if err != nil {
			r.Infra("regexp %q: %v", short(re.String(), 60), err)
			return
		}
		ents = append(ents, entry{re, name, s})
	}
	sort.Slice(ents, func(i, j int) bool { return ents[i].handler < ents[j].handler })
	r.Extra["regex_table_entries"] = len(ents)
	byHandler := map[string]entry{}
	for _, e := range ents {
		byHandler[e.handler] = e
	}
	contains := func(re string) string { return "(re.++ re.all " + re + " re.all)" }
	add := func(name, fam, script string, expect smt.Status, site, bound string, what string) {
		r.Add(&Ob{Name: name, Family: fam, Script: script, Expect: expect, Solver: "z3-new", Fallback: []string{"cvc5"}, TO: 30 * time.Second, Site: site, Bound: bound, Values: []string{"s"},
			OnFail: func(res smt.Result) *Violation {
				id := strings.Trim(res.SModel["s"], `"`)
				id = unescapeSMT(id)
				outcome := probeGateID(id)
				return &Violation{What: what + fmt.Sprintf(" -- witness identifier %q: %s", short(id, 200), outcome), Replay: map[string]any{"kind": "gateid", "id": id, "expect": what}, Outcome: "real gates.GateInstanceFromId called 300 times on the witness identifier: " + outcome}
			}})
	}
	for _, k := range gateKinds {
		lang, lits := idGrammar(k)
		own, ok := byHandler[kindHandler[k]]
		if !ok {
			r.addViolationStructural("gate table", fmt.Sprintf("no table entry routes to %s", kindHandler[k]))
			continue
		}
		bound := "all identifiers of the plonky2 Debug format of " + k + " (numerals of 1..20 digits)"
		// (a) the gate's own regex matches every identifier of its format
		add("match["+k+"]", "gate-id-language", fmt.Sprintf("(declare-const s String)\n(assert (str.in_re s %s))\n(assert (not (str.in_re s %s)))", lang, contains(own.smt)), smt.Unsat, "gate identifier not recognised: "+k, bound,
			"an identifier of a supported gate ("+k+") is not matched by its regular expression")
		// (b) no other regex matches anywhere in it: resolution does not depend on map order
		for _, o := range ents {
			if o.handler == own.handler {
				continue
			}
			add("exclusive["+k+" vs "+o.handler+"]", "gate-id-exclusive", fmt.Sprintf("(declare-const s String)\n(assert (str.in_re s %s))\n(assert (str.in_re s %s))", lang, contains(o.smt)), smt.Unsat, "gate identifier ambiguous: "+k+" / "+o.handler, bound,
				"an identifier of "+k+" is also matched by the expression routed to "+o.handler+" (the result depends on Go's map iteration order)")
		}
		// (c) every inter-capture literal occurs exactly once in every identifier of the format:
		// the captures are pinned to the numeric fields whatever leftmost/greedy rule applies
		for li, l := range lits {
			if l == "" || len(lits) == 1 {
				continue
			}
			ls := "(str.to_re " + smtStr(l) + ")"
			add(fmt.Sprintf("separator-unique[%s #%d]", k, li), "gate-id-captures", fmt.Sprintf("(declare-const s String)\n(assert (str.in_re s %s))\n(assert (str.in_re s (re.++ re.all %s re.all %s re.all)))", lang, ls, ls), smt.Unsat, "gate identifier captures: "+k, bound,
				"a separator of the "+k+" format can occur twice in an identifier (captures not uniquely determined)")
		}
		// vacuity guard: the format language is non-empty
		r.Add(&Ob{Name: "format-nonempty[" + k + "]", Family: "vacuity-guard", Expect: smt.Sat, Guard: true, Solver: "z3-new", Fallback: []string{"cvc5"}, TO: 30 * time.Second, Script: fmt.Sprintf("(declare-const s String)\n(assert (str.in_re s %s))", lang)})
	}
	// (d) identifiers of gates the verifier does not implement match no expression. Their Debug
	// formats: the gadget-crate gates (u32 arithmetic / add-many / subtraction / range check,
	// comparison, ...) are structs of numeric fields followed by `_phantom: PhantomData<F>`, with an
	// optional <D=n> suffix; the lookup gates carry a slot count and a 32-byte table hash.
	field := `(re.++ (re.+ (re.union (re.range "a" "z") (str.to_re "_"))) (str.to_re ": ") ` + reNUM + ` (str.to_re ", "))`
	numList := `(re.++ (str.to_re "[") ` + reNUM + ` (re.* (re.++ (str.to_re ", ") ` + reNUM + `)) (str.to_re "]"))`
	unsupported := map[string]string{}
	for _, name := range []string{"U32ArithmeticGate", "U32AddManyGate", "U32SubtractionGate", "U32RangeCheckGate", "ComparisonGate", "U32InterleaveGate", "EqualityGate", "AssertLessThanGate", "SwitchGate"} {
		unsupported[name] = fmt.Sprintf(`(re.++ (str.to_re %s) (str.to_re " { ") (re.* %s) (str.to_re "_phantom: ") %s (str.to_re " }") (re.opt (re.++ (str.to_re "<D=") %s (str.to_re ">"))))`, smtStr(name), field, rePH, reNUM)
	}
	for _, name := range []string{"LookupGate", "LookupTableGate"} {
		unsupported[name] = fmt.Sprintf(`(re.++ (str.to_re %s) (str.to_re " { num_slots: ") %s (str.to_re ", lut_hash: ") %s (str.to_re " }") (re.opt (re.++ (str.to_re ", lut_hash: ") %s)))`, smtStr(name), reNUM, numList, numList)
	}
	var unames []string
	for n := range unsupported {
		unames = append(unames, n)
	}
	sort.Strings(unames)
	for _, name := range unames {
		lang := unsupported[name]
		for _, o := range ents {
			add("unsupported["+name+" vs "+o.handler+"]", "gate-id-unsupported", fmt.Sprintf("(declare-const s String)\n(assert (str.in_re s %s))\n(assert (str.in_re s %s))", lang, contains(o.smt)), smt.Unsat, "unsupported gate accepted: "+name, "all identifiers of the Debug format of "+name+" (numeric fields, _phantom marker / table hash, optional <D=n>)",
				"an identifier of the unimplemented gate "+name+" is matched by the expression routed to "+o.handler)
		}
		r.Add(&Ob{Name: "format-nonempty[" + name + "]", Family: "vacuity-guard", Expect: smt.Sat, Guard: true, Solver: "z3-new", Fallback: []string{"cvc5"}, TO: 30 * time.Second, Script: fmt.Sprintf("(declare-const s String)\n(assert (str.in_re s %s))", lang)})
	}
	// (e) other extension degrees: identifiers with <D=n>, n != 2, of the gates whose identifier carries D
	for _, k := range []string{"RandomAccess", "Exponentiation", "CosetInterpolation"} {
		lang, _ := idGrammar(k)
		langD := strings.Replace(lang, `}<D=2>")`, `}<D=")`+" "+reNUM+` (str.to_re ">")`, 1)
		if langD == lang {
			r.Infra("cannot build the <D=n> variant of the %s grammar", k)
			continue
		}
		// Against the gate's own expression the direct query does not finish for CosetInterpolation
		// (weight-list star x "contains" search x 90-character tail) on any of the three solvers, so
		// that one obligation is split into two solver-decided inclusions whose composition is plain
		// transitivity:  contains(R) <= contains("<D=2>")   and
		//                format(D=n) /\ contains("<D=2>") <= ends-with("<D=2>"),
		// the second over a superset of the format (printable text without '<' between the gate name
		// and the closing bracket of the weight list; any digit string for n).
		splitOwn := k == "CosetInterpolation"
		// the variant is "...}<D=" NUM ">" ; exclude n = 2
		for _, o := range ents {
			if splitOwn && o.handler == "deserialize"+k+"Gate" {
				l1 := fmt.Sprintf("(declare-const s String)\n(assert (str.in_re s %s))\n(assert (not (str.in_re s (re.++ re.all (str.to_re \"<D=2>\") re.all))))", contains(o.smt))
				sup := `(re.++ (str.to_re "CosetInterpolationGate { subgroup_bits: ") (re.* (re.union (re.range " " ";") (re.range "=" "~"))) (str.to_re "], _phantom: PhantomData<plonky2_field::goldilocks_field::GoldilocksField> }<D=") (re.+ (re.range "0" "9")) (str.to_re ">"))`
				l2 := fmt.Sprintf("(declare-const s String)\n(assert (str.in_re s %s))\n(assert (str.in_re s (re.++ re.all (str.to_re \"<D=2>\") re.all)))\n(assert (not (str.in_re s (re.++ re.all (str.to_re \"<D=2>\")))))", sup)
				l3 := fmt.Sprintf("(declare-const s String)\n(assert (str.in_re s %s))\n(assert (not (str.in_re s %s)))", langD, sup)
				site := "other extension degree: " + k
				for _, q := range []struct{ n, sc, solver, fb string }{
					{"/regex-forces-D2", l1, "z3-new", "cvc5"},
					{"/D2-only-at-end", l2, "cvc5", "z3-new"},
					{"/format-within-superset", l3, "z3-new", "cvc5"},
				} {
					r.Add(&Ob{Name: "other-degree[" + k + " vs " + o.handler + "]" + q.n, Family: "gate-id-unsupported", Script: q.sc, Expect: smt.Unsat, Solver: q.solver, Fallback: []string{q.fb}, TO: 60 * time.Second, Values: []string{"s"}, Site: site, Bound: "all identifiers of " + k + " with <D=n>, n != 2 (three-lemma split)",
						OnFail: func(res smt.Result) *Violation {
							// the solver's witness is an arbitrary string around a match, not a well-formed
							// identifier: a handler refusing IT says nothing. Probe well-formed identifiers of
							// this gate (the real one of the test circuit) with other degrees instead.
							base := ""
							for _, g := range realGateIDs {
								if strings.HasPrefix(g, k+"Gate") && strings.HasSuffix(g, "<D=2>") {
									base = g
								}
							}
							if base == "" {
								return nil
							}
							for _, n := range []string{"0", "1", "3", "4", "10", "22", "222"} {
								id := strings.TrimSuffix(base, "<D=2>") + "<D=" + n + ">"
								out := probeGateID(id)
								if !strings.HasPrefix(out, "refused") {
									return &Violation{What: fmt.Sprintf("an identifier of %s over another extension degree is resolved to a gate: %q: %s", k, short(id, 200), out), Replay: map[string]any{"kind": "gateid", "id": id}, Outcome: "real gates.GateInstanceFromId: " + out}
								}
							}
							r.Note("lemma %s fails for %s (the expression no longer forces <D=2>), but the handler refuses the well-formed identifiers with D in {0,1,3,4,10,22,222}: accepted on the strength of these probes only", q.n, k)
							return &Violation{Site: "other-degree-refused-by-handler", What: "matched but refused", Replay: map[string]any{"kind": "gateid", "id": base}, Outcome: "refused"}
						}})
				}
				continue
			}
			script := fmt.Sprintf("(declare-const s String)\n(assert (str.in_re s %s))\n(assert (not (str.suffixof \"<D=2>\" s)))\n(assert (str.in_re s %s))", langD, contains(o.smt))
			o := o
			kk := k
			r.Add(&Ob{Name: "other-degree[" + k + " vs " + o.handler + "]", Family: "gate-id-unsupported", Script: script, Expect: smt.Unsat, Solver: "z3-new", Fallback: []string{"cvc5"}, TO: 30 * time.Second, Values: []string{"s"}, Site: "other extension degree: " + k, Bound: "all identifiers of " + k + " with <D=n>, n != 2",
				OnFail: func(res smt.Result) *Violation {
					// a match is fine as long as the handler refuses: replay on the real function
					id := unescapeSMT(strings.Trim(res.SModel["s"], `"`))
					out := probeGateID(id)
					if strings.HasPrefix(out, "refused") {
						r.Note("identifier %q (D != 2) is matched by %s and refused by the handler: %s", short(id, 80), o.handler, out)
						return &Violation{Site: "other-degree-refused-by-handler", What: "matched but refused", Replay: map[string]any{"kind": "gateid", "id": id}, Outcome: out}
					}
					return &Violation{What: fmt.Sprintf("an identifier of %s over another extension degree is resolved to a gate: %q: %s", kk, short(id, 200), out), Replay: map[string]any{"kind": "gateid", "id": id}, Outcome: "real gates.GateInstanceFromId: " + out}
				}})
		}
	}
	r.Discharge()
	// handler-refused other-degree matches are the expected behaviour, not violations
	for i := range r.done {
		if r.done[i].viol != nil && r.done[i].viol.Site == "other-degree-refused-by-handler" {
			r.done[i].status = "discharged"
			r.done[i].viol = nil
		}
	}
	// (f) circuits with hiding enabled are refused
	func() {
		src := filepath.Join(r.Repo, "gnark-plonky2-verifier/testdata/test_circuit/common_circuit_data.json")
		b, err := os.ReadFile(src)
		if err != nil {
			r.Infra("%v", err)
			return
		}
		var doc map[string]any
		json.Unmarshal(b, &doc)
		doc["fri_params"].(map[string]any)["hiding"] = true
		nb, _ := json.Marshal(doc)
		p := filepath.Join(r.Scratch, "hiding_common.json")
		os.WriteFile(p, nb, 0o644)
		msg := catchPanic(func() { types.ReadCommonCircuitData(p) })
		ok := catchPanic(func() { types.ReadCommonCircuitData(src) })
		r.Sample(map[string]any{"hiding_true": msg, "hiding_false": ok})
		if msg == "" {
			r.addViolationStructural("hiding accepted", "ReadCommonCircuitData accepts common data with fri_params.hiding = true instead of refusing it")
		}
		if ok != "" {
			r.Infra("ReadCommonCircuitData refuses the real common data: %s", ok)
		}
	}()
	var sam []any
	for _, e := range ents {
		sam = append(sam, map[string]any{"regex": short(e.re.String(), 90), "handler": e.handler})
	}
	r.Sample(sam)
	r.Bounds["identifiers"] = "every string of the plonky2 Debug formats of the 14 supported gates (numerals 1..20 digits, weight lists of any length), of 11 unimplemented gates in their Debug formats, and of the D-carrying gates with any <D=n>"
	r.Bounds["schedules"] = "map iteration order is irrelevant because at most one table entry matches any identifier of a supported format (exclusivity obligations)"
	r.Assumptions = append(r.Assumptions,
		"Go's regexp engine is represented by its specification: FindStringSubmatch finds a match iff the string is in Sigma* L(r) Sigma*; captures are pinned by the uniqueness of the separators",
		"the reference grammar (engine/harness/c18.go idGrammar, engine/ref/gates.go ID) is validated on the gate lists of the real common data (C15 requires the generated identifiers to be exactly the real ones)",
		"that each handler stores capture i in the right field and refuses malformed numerals is decided through C15 for the parameter grids (gates are built from identifiers and proved equal to the reference polynomial with those parameters); an SMT encoding of the handlers' Go code (strconv, maps) is outside what the encoder of this round reaches")
	r.Outside = append(r.Outside, "numerals with more than 20 digits", "the handlers' Go code as such (see assumptions)")
	_ = ref.NewB
	_ = utf8.RuneLen
}

func unescapeSMT(s string) string {
	re := regexp.MustCompile(`\\u\{([0-9a-fA-F]+)\}`)
	s = re.ReplaceAllStringFunc(s, func(m string) string {
		var v int
		fmt.Sscanf(m[3:len(m)-1], "%x", &v)
		return string(rune(v))
	})
	return strings.ReplaceAll(s, `""`, `"`)
}

// probeGateID calls the real resolver repeatedly (map order varies between calls).
func probeGateID(id string) string {
	res := map[string]int{}
	for i := 0; i < 300; i++ {
		var out string
		msg := catchPanic(func() { out = fmt.Sprintf("%T %s", gates.GateInstanceFromId(id), gates.GateInstanceFromId(id).Id()) })
		if msg != "" {
			out = "refused: " + short(msg, 80)
		}
		res[out]++
	}
	if len(res) == 1 {
		for k := range res {
			if strings.HasPrefix(k, "refused") {
				return k
			}
			return "resolved to " + k
		}
	}
	var ks []string
	for k, n := range res {
		ks = append(ks, fmt.Sprintf("%s (%dx)", k, n))
	}
	sort.Strings(ks)
	return "order-dependent: " + strings.Join(ks, " | ")
}
