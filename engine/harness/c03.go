package main

import (
	"fmt"
	"math/big"
	"strings"

	"verif/engine/smt"
	"verif/engine/sym"
)

func init() { drivers["C03"] = runC03 }

// C03: in CircuitFixed the four public values and the sixteen plonky2 public-input limbs
// determine each other.
func runC03(r *Run) {
	r.Functions = []string{"verifier.(*CircuitFixed).Define", "verifier.(*VerifierChip).Verify", "poseidon.(*GoldilocksChip).HashNoPad (reduction of the public inputs)", "goldilocks.(*Chip).RangeCheckWithMaxBits"}
	ks := []int{1}
	if r.Thorough() {
		ks = []int{1, 2, 28}
	}
	names := []string{"test_circuit"}
	if r.Thorough() {
		names = append(names, "test.json")
	}
	for _, name := range names {
		base := loadInstance(r.Repo, name)
		for _, k := range ks {
			in := base
			if k < len(base.Proof.Proof.OpeningProof.QueryRoundProofs) {
				in = base.restrict(k)
			}
			c03One(r, in)
			r.Discharge()
		}
	}
	// the four public values carry sixteen limbs and no more: for an inner circuit with another number of
	// public inputs the wrapper must not build (the further inputs would belong to the attested inner
	// statement without being bound to the public values)
	{
		name := "random/CGZPhFRkL3NvmGaXWBc6N7qJD519EUe6vyNpaEyDe2Ev"
		cr := &circuitReplay{Kind: "circuit", Wrapper: "fixed", Instance: name, K: 1, Expect: "accepted"}
		acc, msg := runCircuitReplay(cr, r.Repo)
		r.Extra["fixed_wrapper_on_97_input_circuit"] = map[bool]string{true: "accepted", false: "refused: " + short(msg, 80)}[acc]
		if acc {
			r.addViolationWithReplay("CircuitFixed for an inner circuit with more than sixteen public inputs", "CircuitFixed builds and accepts for an inner circuit with 97 public inputs: inputs 16..96 are part of the inner statement but are neither width-checked nor packed into the four public values, so these do not determine the inner statement", toMap(cr), "real CircuitFixed (test.IsSolved) accepts the valid 97-input proof with the first sixteen inputs packed")
		}
	}
	r.Bounds["values"] = "all limb values and public values in [0, r) (symbolic), all 16 limbs simultaneously"
	r.Bounds["instances"] = "CircuitFixed built from the 16-public-input circuit (test_circuit; thorough also /repo/test.json), k in {1} quick / {1,2,28} thorough query rounds (the packing does not depend on k)"
	r.Assumptions = append(r.Assumptions,
		"the slice of constraints that mention a raw limb before its reduction (packing equalities and width facts) is taken from the whole Define; the inner statement sees the limbs only through Reduce (mod p), which is what makes limb + k*p a candidate",
		"contract side: for V < 2^128, uint128(V) == V, so NearBlockVerification.secondHash stores exactly the proven value (one-line model of the Solidity truncation)")
	r.Outside = append(r.Outside, "execution of the Solidity contract", "collision resistance of the public-input hash")
}

func c03One(r *Run, in *instance) {
	w := walkVerifier(in, walkOpts{Wrapper: "fixed", Cap: capPlain, Field: true, PermGL: true, PermBN: true, NoShape: true})
	if w.Panic != "" || w.Err != nil {
		walkFailed(r, in, "fixed", w)
		return
	}
	e := w.E
	var limbs, vals []*leafInfo
	for _, l := range w.Leaves {
		if strings.HasPrefix(l.Path, ".ProofWithPis.PublicInputs[") {
			limbs = append(limbs, l)
		}
		if strings.HasPrefix(l.Path, ".PublicInputs[") {
			vals = append(vals, l)
		}
	}
	if len(limbs) != 16 || len(vals) != 4 {
		r.Infra("%s: expected 16 limbs and 4 public values, found %d and %d", in.Name, len(limbs), len(vals))
		return
	}
	for _, v := range vals {
		if v.Vis != "public" {
			r.Note("%s is not a public input of the wrapper (%s)", v.Path, v.Vis)
		}
	}
	// the inner statement must be fed the reductions of exactly these limbs, in order
	nRed := 0
	for _, d := range w.F.defs {
		if d.Kind == "reduce" && strings.Contains(d.Site, "HashNoPad") && nRed < 16 {
			if d.Def != limbs[nRed].Atom {
				r.Infra("%s: public-input hash absorbs something else than limb %d at position %d", in.Name, nRed, nRed)
			}
			nRed++
		}
	}
	if nRed != 16 {
		r.Infra("%s: expected 16 reductions of public inputs in HashNoPad, found %d", in.Name, nRed)
	}
	roots := make([]*sym.Term, 0, 20)
	for _, l := range limbs {
		roots = append(roots, l.Atom)
	}
	for _, l := range vals {
		roots = append(roots, l.Atom)
	}
	cones := coneConsMulti(e, roots)
	seenC := map[string]bool{}
	var slice []sym.Constraint
	for _, cs := range cones {
		for _, c := range cs {
			key := fmt.Sprintf("%d/%p/%p/%d", c.Kind, c.A, c.B, c.N)
			if !seenC[key] {
				seenC[key] = true
				slice = append(slice, c)
			}
		}
	}
	if len(slice) > 20000 {
		r.Infra("%s: slice of constraints around the public inputs unexpectedly large (%d)", in.Name, len(slice))
		return
	}
	e.Refine()
	bnd := fmt.Sprintf("%s: all limb and public values in [0,r)", in.Name)
	replay := func(kind string) func(res smt.Result) *Violation {
		return func(res smt.Result) *Violation {
			// constructive candidates first: the lowest limb of a packed word shifted by p (the inner proof
			// sees the same residue), the packed value adjusted accordingly
			if len(limbs) == 16 && len(vals) == 4 {
				for _, j := range []int{0, 3} {
					l, v := limbs[4*j+3], vals[j]
					if l.Honest == nil || v.Honest == nil {
						continue
					}
					cr := &circuitReplay{Kind: "circuit", Wrapper: "fixed", Instance: in.Base, K: in.K, Expect: "accepted", Edits: []edit{
						{Path: l.Path, Set: new(big.Int).Add(l.Honest, P).String()}, {Path: v.Path, Set: new(big.Int).Add(v.Honest, P).String()}}}
					if acc, _ := runCircuitReplay(cr, r.Repo); acc {
						return &Violation{What: fmt.Sprintf("CircuitFixed accepts a second limb/public-value assignment for the same inner proof (%s): limb %s + p with public value %d + p", kind, l.Path, j), Replay: toMap(cr), Outcome: "real CircuitFixed (test.IsSolved) accepts the honest proof with these limbs and public values"}
					}
				}
			}
			// a public value that differs from the packed limbs above bit 128 only
			for _, j := range []int{0, 3} {
				if j < len(vals) && vals[j].Honest != nil {
					cr := &circuitReplay{Kind: "circuit", Wrapper: "fixed", Instance: in.Base, K: in.K, Expect: "accepted", Edits: []edit{
						{Path: vals[j].Path, Set: new(big.Int).Add(vals[j].Honest, new(big.Int).Lsh(big.NewInt(1), 128)).String()}}}
					if acc, _ := runCircuitReplay(cr, r.Repo); acc {
						return &Violation{What: fmt.Sprintf("CircuitFixed accepts a second public value for the same inner proof and limbs (%s): public value %d + 2^128", kind, j), Replay: toMap(cr), Outcome: "real CircuitFixed (test.IsSolved) accepts the honest proof with this public value"}
					}
				}
			}
			// search a replayable counterexample: limbs congruent to the honest ones mod p
			em := sym.NewEmitter()
			em.Refined = true
			em.Assert(conj(em, slice))
			var diff []string
			for i, l := range limbs {
				n := em.Ref(l.Atom)
				em.Assert(fmt.Sprintf("(= (mod %s %s) %s)", n, P, new(big.Int).Mod(l.Honest, P)))
				diff = append(diff, fmt.Sprintf("(not (= %s %s))", n, l.Honest))
				_ = i
			}
			for _, v := range vals {
				if v.Honest != nil {
					diff = append(diff, fmt.Sprintf("(not (= %s %s))", em.Ref(v.Atom), v.Honest))
				}
			}
			em.Assert("(or " + strings.Join(diff, " ") + ")")
			var names []string
			for _, a := range em.AtomsSeen {
				names = append(names, a.Name)
			}
			res2 := r.pool.Solve(&smt.Query{Script: em.String(), Values: names})
			if res2.Status != smt.Sat {
				r.Note("%s: no second limb vector congruent to the honest one found (%s)", in.Name, res2.Status)
				return nil
			}
			cr := &circuitReplay{Kind: "circuit", Wrapper: "fixed", Instance: in.Base, K: in.K, Expect: "accepted"}
			var changed []string
			for _, l := range append(append([]*leafInfo{}, limbs...), vals...) {
				v := res2.Model[l.Atom.Name]
				if v != nil && (l.Honest == nil || v.Cmp(l.Honest) != 0) {
					cr.Edits = append(cr.Edits, edit{Path: l.Path, Set: v.String()})
					changed = append(changed, fmt.Sprintf("%s=%s", l.Path, v))
				}
			}
			acc, msg := runCircuitReplay(cr, r.Repo)
			if !acc {
				r.Note("%s: replay rejected: %s", in.Name, msg)
				return nil
			}
			return &Violation{What: fmt.Sprintf("CircuitFixed accepts a second limb/public-value assignment for the same inner proof (%s): %s", kind, short(strings.Join(changed, ", "), 300)), Replay: toMap(cr), Outcome: "real CircuitFixed (test.IsSolved) accepts the honest proof with these limbs and public values"}
		}
	}
	// (width) every accepted public value is below 2^128; (exact) limbs are its big-endian 32-bit digits
	for j, v := range vals {
		em := sym.NewEmitter()
		em.Refined = true
		em.Assert(conj(em, cones[16+j]))
		vn := em.Ref(v.Atom)
		var ex, sum []string
		ex = append(ex, fmt.Sprintf("(< %s %s)", vn, pow2(128)))
		for i := 0; i < 4; i++ {
			ln := em.Ref(limbs[4*j+i].Atom)
			ex = append(ex, fmt.Sprintf("(< %s 4294967296)", ln))
			sum = append(sum, fmt.Sprintf("(* %s %s)", pow2(32*(3-i)), ln))
		}
		// V is the integer sum of the limbs weighted big-endian and every limb is a 32-bit digit:
		// by uniqueness of base-2^32 representations the limbs are exactly V's digits
		ex = append(ex, fmt.Sprintf("(= %s (+ %s))", vn, strings.Join(sum, " ")))
		em.Assert("(not (and " + strings.Join(ex, " ") + "))")
		r.Add(&Ob{Name: fmt.Sprintf("packing-exact[%s,V%d]", in.Name, j), Family: "public-input-binding", Script: em.String(), Site: "CircuitFixed public-input packing", Bound: bnd, Diff: "cvc5", OnFail: replay("public value not below 2^128 or limbs not its 32-bit digits")})
	}
	// (injective) no second limb vector with the same residues modulo p
	sub := map[*sym.Term]*sym.Term{}
	for _, l := range append(append([]*leafInfo{}, limbs...), vals...) {
		sub[l.Atom] = e.NamedAtom(l.Atom.Name+"_b", "input", l.Atom.Hi)
	}
	e.Refine()
	for j, v := range vals {
		em := sym.NewEmitter()
		em.Refined = true
		em.Assert(conj(em, cones[16+j]))
		em2 := em.Fork("b_", sub)
		c2 := conj(em2, cones[16+j])
		em.Raw(em2.String())
		em.Assert(c2)
		var diff []string
		for _, l := range limbs[4*j : 4*j+4] {
			em.Assert(fmt.Sprintf("(= (mod %s %s) (mod %s %s))", em.Ref(l.Atom), P, em2.Ref(sub[l.Atom]), P))
			diff = append(diff, fmt.Sprintf("(not (= %s %s))", l.Atom.Name, sub[l.Atom].Name))
		}
		diff = append(diff, fmt.Sprintf("(not (= %s %s))", em.Ref(v.Atom), em2.Ref(sub[v.Atom])))
		em.Assert("(or " + strings.Join(diff, " ") + ")")
		r.Add(&Ob{Name: fmt.Sprintf("packing-injective[%s,V%d]", in.Name, j), Family: "public-input-binding", Script: em.String(), Site: "CircuitFixed public-input packing", Bound: bnd, OnFail: replay("two limb vectors congruent modulo p")})
	}
	// vacuity guard
	{
		em := sym.NewEmitter()
		em.Refined = true
		em.Assert(conj(em, slice))
		r.Add(&Ob{Name: fmt.Sprintf("packing-reach[%s]", in.Name), Family: "vacuity-guard", Expect: smt.Sat, Guard: true, Script: em.String(), Bound: bnd})
	}
	r.Sample(map[string]any{"instance": in.Name, "slice_constraints": len(slice), "limb_atoms": 16, "public_values": 4})
}
