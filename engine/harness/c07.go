package main

import (
	"time"
	"fmt"
	"math/big"
	"strings"

	"github.com/consensys/gnark/frontend"
	gl "github.com/wormhole-foundation/example-near-light-client/goldilocks"

	"verif/engine/ref"
	"verif/engine/smt"
	"verif/engine/sym"
)

func init() { drivers["C07"] = runC07 }

// leaf describes one flat-mode lemma about a gadget of goldilocks.Chip, executed with the range
// checks replaced by the facts that C06 establishes (layer L1).
type leaf struct {
	name   string
	gadget string // replay gadget name
	n      uint64
	ins    []string // input names
	raw    map[string]bool
	// run executes the real gadget and returns the output terms
	run func(chip *gl.Chip, in map[string]gl.Variable) []frontend.Variable
	// pre: extra precondition over the inputs (SMT, may mention input names)
	pre string
	// spec(i): SMT term for the i-th output in terms of the input names; "" = no functional spec
	spec []string
	// post: extra postcondition (SMT) mentioning inputs and out0, out1...
	post string
	// complPre: precondition for completeness ("" = same as pre)
	complPre string
	sound    bool
	complete bool
	site     string
}

// gadgetLemma generates obligations for a leaf.
func gadgetLemma(r *Run, family string, lf leaf) {
	setHooks(factHooksL1)
	defer clearHooks()
	api := newAPI(capPlain)
	e := cur
	defer forgetChips()
	chip := newChip(api)
	in := map[string]gl.Variable{}
	var inTerms []*sym.Term
	for _, nm := range lf.ins {
		hi := sym.Pm1
		if lf.raw[nm] {
			hi = sym.Rm1
		}
		a := inAtom(nm, hi)
		in[nm] = gl.NewVariable(a)
		inTerms = append(inTerms, a)
	}
	var outs []frontend.Variable
	if msg := catchPanic(func() { outs = lf.run(chip, in) }); msg != "" {
		r.Infra("%s: gadget panicked on the symbolic API: %s", lf.name, msg)
		return
	}
	if err := e.RunDeferred(); err != nil {
		r.Infra("%s: %v", lf.name, err)
		return
	}
	outT := make([]*sym.Term, len(outs))
	for i := range outs {
		outT[i] = e.K(outs[i])
	}
	e.Refine()
	site := lf.site
	if site == "" {
		site = lf.name
	}
	bnd := "all operand values allowed by the precondition: " + lf.pre
	prelude := func(em *sym.Emitter) (string, []string) {
		for _, t := range inTerms {
			em.Ref(t)
		}
		cons := make([]string, 0, len(e.Cons))
		for _, c := range e.Cons {
			cons = append(cons, em.Cons(c))
		}
		c := "true"
		if len(cons) > 0 {
			c = "(and " + strings.Join(cons, "\n  ") + ")"
		}
		on := make([]string, len(outT))
		for i, t := range outT {
			on[i] = fmt.Sprintf("out%d", i)
			em.Raw(fmt.Sprintf("(define-fun out%d () Int %s)", i, em.Ref(t)))
		}
		return c, on
	}
	goal := func() string {
		var g []string
		for i, s := range lf.spec {
			if s != "" {
				g = append(g, fmt.Sprintf("(= out%d %s)", i, s))
			}
		}
		if lf.post != "" {
			g = append(g, lf.post)
		}
		if len(g) == 0 {
			return "true"
		}
		return "(and " + strings.Join(g, " ") + ")"
	}
	if lf.sound {
		em := sym.NewEmitter()
		em.Refined = true
		c, _ := prelude(em)
		if lf.pre != "" {
			em.Assert(lf.pre)
		}
		em.Assert(c)
		em.Assert("(not " + goal() + ")")
		seen := em.AtomsSeen
		vals := sym.SortedAtomNames(seen)
		r.Add(&Ob{Name: lf.name + "/sound", Family: family + "-soundness", Script: em.String(), Values: vals, Bound: bnd, Site: site, Diff: "cvc5",
			OnFail: func(res smt.Result) *Violation {
				memo := map[*sym.Term]*big.Int{}
				g := &gadgetReplay{Kind: "gadget", Gadget: lf.gadget, N: lf.n, Cfg: "bitdecomp-r1cs", Expect: "accepted", Overrides: overridesFromModel(e, res.Model, seen)}
				for _, t := range inTerms {
					g.In = append(g.In, evalTerm(t, res.Model, memo).String())
				}
				for _, t := range outT {
					g.Out = append(g.Out, evalTerm(t, res.Model, memo).String())
				}
				acc, msg := runGadgetReplay(g)
				if !acc {
					r.Note("replay of %s not accepted: %s", lf.name, msg)
					return nil
				}
				return &Violation{What: fmt.Sprintf("%s: the real constraint system accepts inputs %v with outputs %v, which the specification forbids (dishonest hint values)", lf.name, g.In, g.Out), Replay: toMap(g), Outcome: "real constraint system (gnark r1cs builder + solver, hints overridden) satisfied"}
			}})
		em3 := sym.NewEmitter()
		em3.Refined = true
		c3, _ := prelude(em3)
		if lf.pre != "" {
			em3.Assert(lf.pre)
		}
		em3.Assert(c3)
		r.Add(&Ob{Name: lf.name + "/reach", Family: "vacuity-guard", Expect: smt.Sat, Guard: true, Script: em3.String(), Bound: bnd})
	}
	if lf.complete {
		pre := lf.complPre
		if pre == "" {
			pre = lf.pre
		}
		replayC := func(seen []*sym.Term) func(res smt.Result) *Violation {
			return func(res smt.Result) *Violation {
				memo := map[*sym.Term]*big.Int{}
				g := &gadgetReplay{Kind: "gadget", Gadget: lf.gadget, N: lf.n, Cfg: "bitdecomp-r1cs", Expect: "rejected"}
				for _, t := range inTerms {
					g.In = append(g.In, evalTerm(t, res.Model, memo).String())
				}
				for _, t := range outT {
					g.Out = append(g.Out, evalTerm(t, res.Model, memo).String())
				}
				acc, msg := runGadgetReplay(g)
				if acc {
					return nil
				}
				return &Violation{What: fmt.Sprintf("%s: the honest prover is rejected for inputs %v (%s)", lf.name, g.In, msg), Replay: toMap(g), Outcome: "real constraint system not satisfied by honest hints"}
			}
		}
		// step 1 (raw intervals): the honest values satisfy every range fact
		var facts, rest []sym.Constraint
		for _, c := range e.Cons {
			if (c.Kind == sym.CRange || c.Kind == sym.CLeq || c.Kind == sym.CBool) && c.A.Op == sym.OpAtom {
				facts = append(facts, c)
			} else {
				rest = append(rest, c)
			}
		}
		em := sym.NewEmitter()
		for _, t := range inTerms {
			em.Ref(t)
		}
		if pre != "" {
			em.Assert(pre)
		}
		if err := honestHints(em, e); err != nil {
			r.Infra("%s: %v", lf.name, err)
			return
		}
		em.Assert("(not " + conj(em, facts) + ")")
		r.Add(&Ob{Name: lf.name + "/complete-facts", Family: family + "-completeness", Script: em.String(), Values: sym.SortedAtomNames(em.AtomsSeen), Bound: "all operand values allowed by: " + pre, Site: site, OnFail: replayC(em.AtomsSeen)})
		// step 2 (intervals refined by those facts): the remaining constraints and the specification hold
		em2 := sym.NewEmitter()
		em2.Refined = true
		c2, _ := prelude(em2)
		_ = c2
		if pre != "" {
			em2.Assert(pre)
		}
		if err := honestHints(em2, e); err != nil {
			r.Infra("%s: %v", lf.name, err)
			return
		}
		em2.Assert(conj(em2, facts))
		em2.Assert("(not (and " + conj(em2, rest) + " " + goal() + "))")
		r.Add(&Ob{Name: lf.name + "/complete", Family: family + "-completeness", Script: em2.String(), Values: sym.SortedAtomNames(em2.AtomsSeen), Bound: "all operand values allowed by: " + pre, Site: site, OnFail: replayC(em2.AtomsSeen)})
		// The two lemmas above speak about the honest-prover MODEL of the hint functions (honestHints). That
		// the repository's hint code follows the model is checked where the model branches: the solver
		// supplies a witness with each operand at 0, 1 and p-1 (and one unrestricted), and the real gadget
		// is run there with the repository's own hints; a refusal is the honest prover failing.
		if lf.gadget != "" {
			type pin struct{ in, val, label string }
			pins := []pin{{"", "", "any"}}
			for _, nm := range lf.ins {
				pins = append(pins, pin{nm, "0", "0"}, pin{nm, "1", "1"}, pin{nm, P.String() + " -1", "p-1"})
			}
			for _, pn := range pins {
				em4 := sym.NewEmitter()
				em4.Refined = true
				c4, _ := prelude(em4)
				if pre != "" {
					em4.Assert(pre)
				}
				if err := honestHints(em4, e); err != nil {
					break
				}
				em4.Assert(c4)
				name := lf.name + "/honest-witness[" + pn.label + "]"
				if pn.in != "" {
					v := pn.val
					if strings.HasSuffix(v, " -1") {
						v = "(- " + strings.TrimSuffix(v, " -1") + " 1)"
					}
					em4.Assert(fmt.Sprintf("(= %s %s)", pn.in, v))
					name = lf.name + "/honest-witness[" + pn.in + "=" + pn.label + "]"
				}
				r.Add(&Ob{Name: name, Family: family + "-hint-conformance", Expect: smt.Sat, Script: em4.String(), Values: sym.SortedAtomNames(em4.AtomsSeen), Bound: "one solver-chosen operand tuple per branch point", Site: site + " (honest hints)", TO: 20 * time.Second,
					OnWitness: replayC(em4.AtomsSeen),
					// an operand value the precondition excludes: nothing to run
					OnFail: func(res smt.Result) *Violation { return &Violation{Site: "benign:excluded"} }})
			}
		}
	}
}

func mulAddLeaves() []leaf {
	ps := P.String()
	v := func(in map[string]gl.Variable, n string) gl.Variable { return in[n] }
	one := func(x gl.Variable) []frontend.Variable { return []frontend.Variable{x.Limb} }
	canon := func(names ...string) string {
		var s []string
		for _, n := range names {
			s = append(s, fmt.Sprintf("(< %s %s)", n, ps))
		}
		return "(and true " + strings.Join(s, " ") + ")"
	}
	modp := func(x string) string { return fmt.Sprintf("(mod %s %s)", x, ps) }
	lt := func(o string) string { return fmt.Sprintf("(and (<= 0 %s) (< %s %s))", o, o, ps) }
	return []leaf{
		{name: "MulAdd", gadget: "MulAdd", ins: []string{"a", "b", "c"}, pre: canon("a", "b", "c"), sound: true, complete: true,
			run: func(ch *gl.Chip, in map[string]gl.Variable) []frontend.Variable {
				return one(ch.MulAdd(v(in, "a"), v(in, "b"), v(in, "c")))
			},
			spec: []string{modp("(+ (* a b) c)")}, post: lt("out0")},
		{name: "Add", gadget: "Add", ins: []string{"a", "b"}, pre: canon("a", "b"), sound: true, complete: true,
			run: func(ch *gl.Chip, in map[string]gl.Variable) []frontend.Variable {
				return one(ch.Add(v(in, "a"), v(in, "b")))
			},
			spec: []string{modp("(+ a b)")}, post: lt("out0")},
		{name: "Sub", gadget: "Sub", ins: []string{"a", "b"}, pre: canon("a", "b"), sound: true, complete: true,
			run: func(ch *gl.Chip, in map[string]gl.Variable) []frontend.Variable {
				return one(ch.Sub(v(in, "a"), v(in, "b")))
			},
			spec: []string{modp("(- a b)")}, post: lt("out0")},
		{name: "Mul", gadget: "Mul", ins: []string{"a", "b"}, pre: canon("a", "b"), sound: true, complete: true,
			run: func(ch *gl.Chip, in map[string]gl.Variable) []frontend.Variable {
				return one(ch.Mul(v(in, "a"), v(in, "b")))
			},
			spec: []string{modp("(* a b)")}, post: lt("out0")},
	}
}

func noReduceLeaves() []leaf {
	ps := P.String()
	v := func(in map[string]gl.Variable, n string) gl.Variable { return in[n] }
	one := func(x gl.Variable) []frontend.Variable { return []frontend.Variable{x.Limb} }
	canon := func(names ...string) string {
		var s []string
		for _, n := range names {
			s = append(s, fmt.Sprintf("(< %s %s)", n, ps))
		}
		return "(and true " + strings.Join(s, " ") + ")"
	}
	cong := func(x string) string { return fmt.Sprintf("(= (mod out0 %s) (mod %s %s))", ps, x, ps) }
	return []leaf{
		{name: "AddNoReduce", ins: []string{"a", "b"}, pre: canon("a", "b"), sound: true,
			run: func(ch *gl.Chip, in map[string]gl.Variable) []frontend.Variable {
				return one(ch.AddNoReduce(v(in, "a"), v(in, "b")))
			},
			post: cong("(+ a b)")},
		{name: "SubNoReduce", ins: []string{"a", "b"}, pre: canon("a", "b"), sound: true,
			run: func(ch *gl.Chip, in map[string]gl.Variable) []frontend.Variable {
				return one(ch.SubNoReduce(v(in, "a"), v(in, "b")))
			},
			post: cong("(- a b)")},
		{name: "MulNoReduce", ins: []string{"a", "b"}, pre: canon("a", "b"), sound: true,
			run: func(ch *gl.Chip, in map[string]gl.Variable) []frontend.Variable {
				return one(ch.MulNoReduce(v(in, "a"), v(in, "b")))
			},
			post: cong("(* a b)")},
		{name: "MulAddNoReduce", ins: []string{"a", "b", "c"}, pre: canon("a", "b", "c"), sound: true,
			run: func(ch *gl.Chip, in map[string]gl.Variable) []frontend.Variable {
				return one(ch.MulAddNoReduce(v(in, "a"), v(in, "b"), v(in, "c")))
			},
			post: cong("(+ (* a b) c)")},
	}
}

func reduceLeaf(n uint64, viaReduce bool) leaf {
	ps := P.String()
	lim := new(big.Int).Lsh(P, uint(n))
	lf := leaf{name: fmt.Sprintf("ReduceWithMaxBits[n=%d]", n), gadget: "Reduce", n: n, ins: []string{"x"}, raw: map[string]bool{"x": true}, sound: true, complete: true,
		pre: "true", complPre: fmt.Sprintf("(< x %s)", lim),
		run: func(ch *gl.Chip, in map[string]gl.Variable) []frontend.Variable {
			return []frontend.Variable{ch.ReduceWithMaxBits(in["x"], n).Limb}
		},
		spec: []string{fmt.Sprintf("(mod x %s)", ps)},
		site: fmt.Sprintf("ReduceWithMaxBits n=%d", n)}
	if viaReduce {
		lf.name = "Reduce"
		lf.run = func(ch *gl.Chip, in map[string]gl.Variable) []frontend.Variable {
			return []frontend.Variable{ch.Reduce(in["x"]).Limb}
		}
	}
	return lf
}

func inverseLeaf() leaf {
	ps := P.String()
	return leaf{name: "Inverse", gadget: "Inverse", ins: []string{"x"}, pre: fmt.Sprintf("(< x %s)", ps), sound: true, complete: true,
		run: func(ch *gl.Chip, in map[string]gl.Variable) []frontend.Variable {
			inv, has := ch.Inverse(in["x"])
			return []frontend.Variable{inv.Limb, has}
		},
		post: fmt.Sprintf("(and (<= 0 out0) (< out0 %s) (ite (= x 0) (= out1 0) (and (= out1 1) (= (mod (* x out0) %s) 1))))", ps, ps)}
}

func runC07(r *Run) {
	r.Functions = []string{"goldilocks.(*Chip).Add", "goldilocks.(*Chip).Sub", "goldilocks.(*Chip).Mul", "goldilocks.(*Chip).MulAdd", "goldilocks.(*Chip).AddNoReduce", "goldilocks.(*Chip).SubNoReduce", "goldilocks.(*Chip).MulNoReduce", "goldilocks.(*Chip).MulAddNoReduce", "goldilocks.(*Chip).Reduce", "goldilocks.(*Chip).ReduceWithMaxBits", "goldilocks.(*Chip).Inverse", "goldilocks.MulAddHint/ReduceHint/InverseHint (as honest prover models)"}
	for _, lf := range mulAddLeaves() {
		gadgetLemma(r, "base-field", lf)
	}
	for _, lf := range noReduceLeaves() {
		gadgetLemma(r, "base-field-noreduce", lf)
	}
	gadgetLemma(r, "base-field", reduceLeaf(uint64(gl.RANGE_CHECK_NB_BITS), true))
	gadgetLemma(r, "base-field", inverseLeaf())
	// contract prerequisites (C06): the facts used in place of the range checks
	setHooks(factHooksL0)
	rangeLemmas(r, rcConfig{capPlain, false, ""}, []rangeItem{{name: "rangeGL[layered]", bound: P, gadget: "RangeCheck", compl: "direct", body: func(chip *gl.Chip, x gl.Variable) { chip.RangeCheck(x) }}})
	clearHooks()
	sharedOperandCases(r)
	constantOperandCases(r)
	unreducedOperandCases(r)
	r.Bounds["operands"] = "all canonical operand values (symbolic, < p); Reduce input any value in [0, r) for soundness and < 2^144*p for acceptance"
	r.Bounds["RANGE_CHECK_NB_BITS"] = gl.RANGE_CHECK_NB_BITS
	r.Assumptions = append(r.Assumptions,
		"range checks inside the gadgets are replaced by the facts 0<=x<2^n / x<p; these facts are established per configuration by the C06 obligations (layered lemma re-run here)",
		"existence of modular inverses (p prime) is assumed for the completeness of Inverse")
	r.Outside = append(r.Outside, "non-canonical operands of MulAdd/Add/Sub/Mul (callers must supply canonical values; checked per call site in C05)")
}

// sharedOperandCases: gadgets that accumulate with api.MulAcc, called so that an operand is used
// again after the call. gnark's builders may extend the first operand of MulAcc in place; the cases
// run in the symbolic API's alias mode, where they always do, and a disagreement is replayed on a
// circuit compiled with the real R1CS builder.
func sharedOperandCases(r *Run) {
	k := func(v uint64) gl.Variable { return gl.NewVariable(v) }
	var cs fieldCase
	cs = fieldCase{name: "MulAddNoReduce[addend used again afterwards]", alias: true, bound: "all canonical a, b, c (symbolic); acc = a*3+c, then a*5+acc and b*7+acc", build: func(fc *fctx) ([]frontend.Variable, []*ref.N) {
		a, ra := fc.glIn("a")
		b, rb := fc.glIn("b")
		c, rc := fc.glIn("c")
		acc := fc.chip.MulAddNoReduce(a, k(3), c)
		r1 := fc.chip.MulAddNoReduce(a, k(5), acc)
		r2 := fc.chip.MulAddNoReduce(b, k(7), acc)
		o1, o2 := fc.chip.Reduce(r1), fc.chip.Reduce(r2)
		B := fc.rb
		racc := B.Add(B.Mul(ra, B.ConstU(3)), rc)
		return []frontend.Variable{o1.Limb, o2.Limb}, []*ref.N{B.Add(B.Mul(ra, B.ConstU(5)), racc), B.Add(B.Mul(rb, B.ConstU(7)), racc)}
	}}
	cs.acceptReplay = func() string { return sharedOperandReplay(cs, r) }
	if q := runFieldCase(r, "shared-operand", cs, nil); q != nil {
		r.Sample(q.stats())
	}
	r.Discharge()
	// MulAdd (and through it Add / Sub / Mul): the real body runs here (its contract says nothing about
	// what happens to the operands); the addend is a sum that is read again afterwards
	var cm fieldCase
	cm = fieldCase{name: "Add via MulAdd[addend used again afterwards]", alias: true, unhook: []string{"goldilocks.Chip.MulAdd"}, bound: "all x, a (symbolic; 2x < p in the replay); sel = x + x, Add(a, sel), then sel - x", build: func(fc *fctx) ([]frontend.Variable, []*ref.N) {
		// a is created before x: the builder keeps the terms of an expression sorted by wire, so after
		// an in-place extension the old (shorter) view of the accumulator starts with a's term
		a, _ := fc.glIn("a")
		x, rx := fc.glIn("x")
		// x + x: in gnark's R1CS builder the two terms merge, which leaves the expression with spare
		// capacity - the situation in which MulAcc extends its first operand in place
		sel := fc.chip.AddNoReduce(x, x)
		fc.chip.Add(a, sel)
		out := fc.chip.Reduce(fc.chip.SubNoReduce(sel, x))
		return []frontend.Variable{out.Limb}, []*ref.N{rx}
	}}
	cm.acceptReplay = func() string { return sharedOperandReplay(cm, r) }
	runFieldCase(r, "shared-operand", cm, nil)
	r.Discharge()
}

// constantOperandCases: the arithmetic wrappers with compile-time constants as operands (gnark's builders
// report constants through Compiler().ConstantValue, the symbolic API does the same; the test engine does
// not - so a disagreement is replayed on a circuit compiled with the real R1CS builder).
func constantOperandCases(r *Run) {
	pm := new(big.Int).Set(P)
	edge := []uint64{0, 1, 1<<32 - 1, 1 << 32, 1 << 63, pm.Uint64() - 1<<32, pm.Uint64() - 1}
	k := func(v uint64) gl.Variable { return gl.NewVariable(v) }
	type op struct {
		name string
		f    func(c *gl.Chip, a, b gl.Variable) gl.Variable
		g    func(B *ref.B, a, b *ref.N) *ref.N
	}
	ops := []op{
		{"Add", func(c *gl.Chip, a, b gl.Variable) gl.Variable { return c.Add(a, b) }, func(B *ref.B, a, b *ref.N) *ref.N { return B.Add(a, b) }},
		{"Sub", func(c *gl.Chip, a, b gl.Variable) gl.Variable { return c.Sub(a, b) }, func(B *ref.B, a, b *ref.N) *ref.N { return B.Sub(a, b) }},
		{"Mul", func(c *gl.Chip, a, b gl.Variable) gl.Variable { return c.Mul(a, b) }, func(B *ref.B, a, b *ref.N) *ref.N { return B.Mul(a, b) }},
		{"MulAdd(.,.,p-1)", func(c *gl.Chip, a, b gl.Variable) gl.Variable { return c.MulAdd(a, b, gl.NewVariable(pm.Uint64()-1)) }, func(B *ref.B, a, b *ref.N) *ref.N { return B.Add(B.Mul(a, b), B.ConstU(pm.Uint64()-1)) }},
	}
	for _, o := range ops {
		o := o
		for _, mixed := range []bool{false, true} {
			mixed := mixed
			var cs fieldCase
			name := o.name + "[both operands compile-time constants]"
			bound := "operands from {0, 1, 2^32-1, 2^32, 2^63, p-2^32, p-1}, all 49 pairs"
			if mixed {
				name = o.name + "[second operand a compile-time constant]"
				bound = "first operand symbolic, second from {0, 1, 2^32-1, 2^32, 2^63, p-2^32, p-1}"
			}
			cs = fieldCase{name: name, bound: bound, build: func(fc *fctx) ([]frontend.Variable, []*ref.N) {
				var outs []frontend.Variable
				var refs []*ref.N
				if mixed {
					x, rx := fc.glIn("x")
					for _, b := range edge {
						outs = append(outs, o.f(fc.chip, x, k(b)).Limb)
						refs = append(refs, o.g(fc.rb, rx, fc.rb.ConstU(b)))
					}
					return outs, refs
				}
				for _, a := range edge {
					for _, b := range edge {
						outs = append(outs, o.f(fc.chip, k(a), k(b)).Limb)
						refs = append(refs, o.g(fc.rb, fc.rb.ConstU(a), fc.rb.ConstU(b)))
					}
				}
				return outs, refs
			}}
			cs.acceptReplay = func() string { return sharedOperandReplay(cs, r) }
			runFieldCase(r, "constant-operands", cs, nil)
		}
		r.Discharge()
	}
}

// unreducedOperandCases: the NoReduce variants take operands that are themselves unreduced sums.
func unreducedOperandCases(r *Run) {
	var cs fieldCase
	cs = fieldCase{name: "SubNoReduce[subtrahend an unreduced sum]", bound: "all canonical a, u, v (symbolic): Reduce(SubNoReduce(a, AddNoReduce(u, v)))", build: func(fc *fctx) ([]frontend.Variable, []*ref.N) {
		a, ra := fc.glIn("a")
		u, ru := fc.glIn("u")
		v, rv := fc.glIn("v")
		out := fc.chip.Reduce(fc.chip.SubNoReduce(a, fc.chip.AddNoReduce(u, v)))
		B := fc.rb
		return []frontend.Variable{out.Limb}, []*ref.N{B.Sub(ra, B.Add(ru, rv))}
	}}
	runFieldCase(r, "unreduced-operands", cs, nil)
	var cm fieldCase
	cm = fieldCase{name: "MulNoReduce, AddNoReduce[operands unreduced sums]", bound: "all canonical a, b, u, v (symbolic): Reduce(AddNoReduce(MulNoReduce(a, b), AddNoReduce(u, v)))", build: func(fc *fctx) ([]frontend.Variable, []*ref.N) {
		a, ra := fc.glIn("a")
		b, rb := fc.glIn("b")
		u, ru := fc.glIn("u")
		v, rv := fc.glIn("v")
		out := fc.chip.Reduce(fc.chip.AddNoReduce(fc.chip.MulNoReduce(a, b), fc.chip.AddNoReduce(u, v)))
		B := fc.rb
		return []frontend.Variable{out.Limb}, []*ref.N{B.Add(B.Mul(ra, rb), B.Add(ru, rv))}
	}}
	runFieldCase(r, "unreduced-operands", cm, nil)
	r.Discharge()
}

// sharedOperandReplay: random canonical inputs, the reference's results as expected outputs, on the
// real R1CS builder.
func sharedOperandReplay(c fieldCase, r *Run) string {
	names, his, _, refs, e := engineInputs(c, nil)
	if e != "" || len(refs) == 0 {
		return ""
	}
	for seed := 0; seed < 3; seed++ {
		env := map[string]*big.Int{}
		for i, n := range names {
			env[n] = ref.UFEval(fmt.Sprintf("shared-operand-%d-%d", r.Seed, seed), i, false, nil)
			if his[i].Cmp(sym.Pm1) < 0 {
				env[n].Mod(env[n], new(big.Int).Add(his[i], big.NewInt(1)))
			}
			if n == "x" || n == "y" {
				env[n].Mod(env[n], new(big.Int).Lsh(big.NewInt(1), 62)) // keeps x + y canonical for the honest hints
			}
		}
		memo := map[*ref.N]*big.Int{}
		var want []*big.Int
		if concreteGL != nil || concreteBN != nil {
			ref.SetConcreteHashes(concreteGL, concreteBN)
		}
		for _, n := range refs {
			want = append(want, ref.Eval(n, func(h any) *big.Int { return env[h.(*sym.Term).Name] }, memo))
		}
		ref.ClearConcreteHashes()
		if ok, msg := runCaseOnR1CS(c, names, env, want); !ok {
			why := "an operand handed to api.MulAcc is extended in place and read again afterwards"
			if !c.alias {
				why = "on a compiling builder (constants are visible to the code there) the result is not the reference's"
			}
			return "the circuit compiled with gnark's R1CS builder rejects the true results of " + c.name + " (" + msg + "): " + why
		}
	}
	return ""
}
