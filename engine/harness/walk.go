package main

import (
	"fmt"
	"math/big"
	"strings"

	"github.com/consensys/gnark/frontend"
	gl "github.com/wormhole-foundation/example-near-light-client/goldilocks"
	"github.com/wormhole-foundation/example-near-light-client/verifier"

	"verif/engine/sym"
)

type walkOpts struct {
	Wrapper string // "verifier" (VerifierCircuit) | "fixed" (CircuitFixed)
	Cap     capKind
	Env     bool
	Field   bool // field mode (leaf gadgets hooked)
	PermGL  bool // Goldilocks Poseidon permutation uninterpreted
	PermBN  bool // BN254 Poseidon permutation uninterpreted
	Pin     bool // shadow evaluation with the honest values
	Extra   map[string]hookFn
	Unhook  []string // leaf gadgets whose real body runs although field mode would replace them
	NoShape bool
	PIBits  int // >0: assume public inputs below 2^PIBits (honest-fit direction only)
}

type walkResult struct {
	In     *instance
	Opts   walkOpts
	E      *sym.Ctx
	F      *fieldRun
	Leaves []*leafInfo
	Panic  string
	Err    error
	// circuit values after symbolisation (for harnesses that need the atoms by position)
	VC *verifier.VerifierCircuit
	FC *verifier.CircuitFixed
}

func hookPermGL(recv any, args []any) []any {
	e := cur
	in := args[0].([12]gl.Variable)
	ts := make([]*sym.Term, 12)
	for i := range in {
		ts[i] = e.K(in[i].Limb)
		if ts[i].Hi.Cmp(P) >= 0 {
			fr.flag("Poseidon input not provably canonical @ %s", sym.CallSite("example-near-light-client", 4))
		}
	}
	fr.rec("PermGL", 0, 64)
	var out [12]gl.Variable
	for i := range out {
		out[i] = gl.NewVariable(e.UF("permGL", i, sym.Pm1, ts...))
	}
	return []any{out}
}

func hookPermBN(recv any, args []any) []any {
	e := cur
	in := args[0].([4]frontend.Variable)
	ts := make([]*sym.Term, 4)
	for i := range in {
		ts[i] = e.K(in[i])
	}
	fr.rec("PermBN", 0, 254)
	var out [4]frontend.Variable
	for i := range out {
		out[i] = e.UF("permBN", i, sym.Rm1, ts...)
	}
	return []any{out}
}

// walkVerifier executes the real Define of the chosen wrapper on the symbolic API.
func walkVerifier(in *instance, o walkOpts) *walkResult { return walkVerifierWith(in, o, nil) }

func walkVerifierWith(in *instance, o walkOpts, prep func(e *sym.Ctx)) *walkResult {
	setBitDecompEnv(o.Env)
	api := newAPI(o.Cap)
	e := cur
	if prep != nil {
		prep(e)
	}
	e.ShadowOn = o.Pin
	res := &walkResult{In: in, Opts: o, E: e}
	hooks := map[string]hookFn{}
	if o.Field {
		for k, v := range fieldHooks() {
			hooks[k] = v
		}
	}
	res.F = newFieldRun(e)
	res.F.noShapes = o.NoShape
	if o.PermGL {
		hooks["poseidon.GoldilocksChip.Poseidon"] = hookPermGL
	}
	if o.PermBN {
		hooks["poseidon.BN254Chip.Poseidon"] = hookPermBN
	}
	for k, v := range o.Extra {
		hooks[k] = v
	}
	for _, k := range o.Unhook {
		delete(hooks, k)
	}
	setHooks(hooks)
	defer clearHooks()
	defer forgetChips()
	var define func(frontend.API) error
	switch o.Wrapper {
	case "verifier":
		c := &verifier.VerifierCircuit{Proof: cloneValue(in.Proof.Proof), PublicInputs: cloneValue(in.Proof.PublicInputs), VerifierData: cloneValue(in.VD), CommonCircuitData: in.Common}
		res.Leaves = symbolise(e, c, o.Pin)
		res.VC = c
		define = c.Define
	case "fixed":
		c := &verifier.CircuitFixed{ProofWithPis: cloneValue(in.Proof), VerifierData: cloneValue(in.VD), CommonCircuitData: in.Common}
		// honest packed public values
		if len(in.RawPis) == 16 {
			for j := 0; j < 4; j++ {
				acc := new(big.Int)
				for i := 0; i < 4; i++ {
					acc.Lsh(acc, 32)
					acc.Add(acc, new(big.Int).SetUint64(in.RawPis[4*j+i]))
				}
				c.PublicInputs[j] = acc
			}
		}
		res.Leaves = symbolise(e, c, o.Pin)
		res.FC = c
		define = c.Define
	default:
		panic("wrapper " + o.Wrapper)
	}
	if o.PIBits > 0 {
		hi := new(big.Int).Sub(pow2(o.PIBits), big.NewInt(1))
		for _, l := range res.Leaves {
			if strings.Contains(l.Path, ".PublicInputs[") && strings.HasSuffix(l.Path, ".Limb") {
				l.Atom.Hi = hi
			}
		}
	}
	res.Panic = catchPanic(func() {
		quiet(func() {
			if err := define(api); err != nil {
				res.Err = err
				return
			}
			res.Err = e.RunDeferred()
		})
	})
	return res
}

func (w *walkResult) leaf(pathPrefix string) []*leafInfo {
	var out []*leafInfo
	for _, l := range w.Leaves {
		if strings.HasPrefix(l.Path, pathPrefix) {
			out = append(out, l)
		}
	}
	return out
}

func (w *walkResult) summary() string {
	tot := map[string]int{}
	for _, s := range w.F.sites {
		tot[s.Kind] += s.Count
	}
	return fmt.Sprintf("%s wrapper=%s cap=%s env=%v: %d input atoms, %d nodes, %d constraints, %d static hook sites, dynamic %v", w.In.Name, w.Opts.Wrapper, w.Opts.Cap, w.Opts.Env, len(w.Leaves), w.E.NodeCnt, len(w.E.Cons), len(w.F.sites), tot)
}

// walkFailed: the real Define did not go through on the symbolic API for a valid instance. When the
// real circuit (gnark test engine) refuses the valid proof as well, that is the violation; otherwise
// the failure is the harness's and the run is inconclusive.
func walkFailed(r *Run, in *instance, wr string, w *walkResult) {
	what := fmt.Sprintf("%s/%s: Define fails on the valid instance: %s %v", in.Name, wr, short(w.Panic, 200), w.Err)
	cr := &circuitReplay{Kind: "circuit", Wrapper: wr, Instance: in.Base, K: in.K, Expect: "rejected"}
	acc, msg := runCircuitReplay(cr, r.Repo)
	if acc {
		r.Infra("%s -- but the real circuit (test engine) accepts the valid proof: harness problem", what)
		return
	}
	r.addViolationWithReplay("valid proof rejected / circuit not definable ("+wr+" wrapper)", what+" (real circuit: "+short(msg, 100)+")", toMap(cr), "real circuit (test.IsSolved) rejects the unmodified valid proof")
}
