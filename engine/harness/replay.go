package main

import (
	"crypto/sha256"
	"encoding/json"
	"fmt"
	"math/big"
	"os"
	"strings"
	"time"

	"github.com/consensys/gnark/backend/witness"
	"github.com/consensys/gnark/constraint"
	"github.com/consensys/gnark/constraint/solver"
	"github.com/consensys/gnark/frontend"
	"github.com/consensys/gnark/frontend/cs/r1cs"
	"github.com/consensys/gnark/frontend/cs/scs"
	stdbits "github.com/consensys/gnark/std/math/bits"
	"github.com/consensys/gnark/std/rangecheck"
	"github.com/wormhole-foundation/example-near-light-client/fri"
	gl "github.com/wormhole-foundation/example-near-light-client/goldilocks"
	"github.com/wormhole-foundation/example-near-light-client/poseidon"
	"github.com/wormhole-foundation/example-near-light-client/types"

	"verif/engine/smt"
	"verif/engine/sym"
)

// Replays run the REAL gadget code (hooks off: the instrumented prologues fall through to the
// original bodies) on gnark's real constraint-system builders and gnark's real solver.

type gadgetCircuit struct {
	Gadget string `gnark:"-"`
	N      uint64 `gnark:"-"`
	Pad    int    `gnark:"-"`
	In     []frontend.Variable
	Out    []frontend.Variable
}

func (c *gadgetCircuit) Define(api frontend.API) error {
	gc := c
	chip := gl.New(api)
	// padding: the commit-based checker only chooses 16-bit limbs for large circuits
	for i := 0; i < c.Pad; i++ {
		chip.RangeCheckWithMaxBits(gl.NewVariable(c.In[len(c.In)-1]), 32)
	}
	v := func(i int) gl.Variable { return gl.NewVariable(c.In[i]) }
	switch c.Gadget {
	case "RangeCheck":
		chip.RangeCheck(v(0))
	case "RangeN":
		chip.RangeCheckWithMaxBits(v(0), c.N)
	case "LeadingZeros":
		in := loadInstance(replayRepo, "test_circuit")
		cm := in.Common
		fc := fri.NewChip(api, &cm, &cm.FriParams)
		cfg := cm.FriParams.Config
		cfg.ProofOfWorkBits = gc.N
		fn[func(*fri.Chip, gl.Variable, types.FriConfig)]("fri.Chip.assertLeadingZeros")(fc, v(0), cfg)
	case "PowVerify0", "PowVerify1", "PowVerify2":
		ar := map[string][]uint64{"PowVerify0": {}, "PowVerify1": {1}, "PowVerify2": {4, 4}}[c.Gadget]
		powThroughVerify(api, v(0), 16, ar)
	case "MulAdd":
		api.AssertIsEqual(chip.MulAdd(v(0), v(1), v(2)).Limb, c.Out[0])
	case "Add":
		api.AssertIsEqual(chip.Add(v(0), v(1)).Limb, c.Out[0])
	case "Sub":
		api.AssertIsEqual(chip.Sub(v(0), v(1)).Limb, c.Out[0])
	case "Mul":
		api.AssertIsEqual(chip.Mul(v(0), v(1)).Limb, c.Out[0])
	case "Reduce":
		api.AssertIsEqual(chip.ReduceWithMaxBits(v(0), c.N).Limb, c.Out[0])
	case "Inverse":
		inv, has := chip.Inverse(v(0))
		api.AssertIsEqual(inv.Limb, c.Out[0])
		api.AssertIsEqual(has, c.Out[1])
	case "ToVec":
		bc := poseidon.NewBN254Chip(api)
		for i, o := range bc.ToVec(c.In[0]) {
			api.AssertIsEqual(o.Limb, c.Out[i])
		}
	case "SBox":
		pc := poseidon.NewGoldilocksChip(api)
		f := fn[func(*poseidon.GoldilocksChip, gl.Variable) gl.Variable]("poseidon.GoldilocksChip.sBoxMonomial")
		api.AssertIsEqual(f(pc, v(0)).Limb, c.Out[0])
	default:
		return fmt.Errorf("unknown gadget %s", c.Gadget)
	}
	return nil
}

// nativeBuilder is a builder that range-checks natively (implements frontend.Rangechecker) by
// decomposing into bits itself: a faithful stand-in for "a builder with its own range checker".
type nativeBuilder struct {
	frontend.Builder
	calls *int
}

func (b nativeBuilder) SetKeyValue(k, v any) {
	b.Builder.(interface{ SetKeyValue(any, any) }).SetKeyValue(k, v)
}
func (b nativeBuilder) GetKeyValue(k any) any {
	return b.Builder.(interface{ GetKeyValue(any) any }).GetKeyValue(k)
}

func (b nativeBuilder) Check(v frontend.Variable, nb int) {
	*b.calls++
	stdbits.ToBinary(b.Builder, v, stdbits.WithNbDigits(nb))
}

type override struct {
	Hint string   `json:"hint"`
	In   []string `json:"in"`
	Out  []string `json:"out"`
}

type gadgetReplay struct {
	Kind      string     `json:"kind"` // "gadget"
	Gadget    string     `json:"gadget"`
	N         uint64     `json:"n"`
	Cfg       string     `json:"cfg"` // bitdecomp-r1cs | bitdecomp-scs | native-r1cs
	In        []string   `json:"in"`
	Out       []string   `json:"out"`
	Overrides []override `json:"overrides"`
	Expect    string     `json:"expect"` // "accepted": reproduced iff the real system is satisfied
	PadN      int        `json:"pad,omitempty"` // commit configurations: number of padding checks
}

func bigs(ss []string) []*big.Int {
	out := make([]*big.Int, len(ss))
	for i, s := range ss {
		out[i], _ = new(big.Int).SetString(s, 10)
		if out[i] == nil {
			out[i] = new(big.Int)
		}
	}
	return out
}
func strs(bs []*big.Int) []string {
	out := make([]string, len(bs))
	for i, b := range bs {
		out[i] = b.String()
	}
	return out
}

var replayRepo = "/repo"

var repoHints = map[string]solver.Hint{}

func init() {
	repoHints["goldilocks.MulAddHint"] = gl.MulAddHint
	repoHints["goldilocks.ReduceHint"] = gl.ReduceHint
	repoHints["goldilocks.InverseHint"] = gl.InverseHint
	repoHints["goldilocks.SplitLimbsHint"] = gl.SplitLimbsHint
	// gnark's own hints that a dishonest prover may also replace
	for _, h := range append(stdbits.GetHints(), rangecheck.GetHints()...) {
		n := sym.HintName(h)
		repoHints[n[strings.LastIndex(n, "/")+1:]] = h
	}
}

// runGadgetReplay returns (accepted, error text of the solver if rejected, info).
func runGadgetReplay(g *gadgetReplay) (bool, string) {
	old, had := os.LookupEnv("USE_BIT_DECOMPOSITION_RANGE_CHECK")
	defer func() {
		if had {
			os.Setenv("USE_BIT_DECOMPOSITION_RANGE_CHECK", old)
		} else {
			os.Unsetenv("USE_BIT_DECOMPOSITION_RANGE_CHECK")
		}
	}()
	clearHooks()
	var nb frontend.NewBuilder
	calls := 0
	pad := 0
	switch g.Cfg {
	case "bitdecomp-r1cs":
		os.Setenv("USE_BIT_DECOMPOSITION_RANGE_CHECK", "true")
		nb = r1cs.NewBuilder
	case "bitdecomp-scs":
		os.Setenv("USE_BIT_DECOMPOSITION_RANGE_CHECK", "true")
		nb = scs.NewBuilder
	case "commit-r1cs":
		os.Unsetenv("USE_BIT_DECOMPOSITION_RANGE_CHECK")
		nb = r1cs.NewBuilder
		if g.PadN == 0 {
			g.PadN = commitPad
		}
		pad = g.PadN
		g.In = append(append([]string{}, g.In...), "5")
	case "commit-scs":
		os.Unsetenv("USE_BIT_DECOMPOSITION_RANGE_CHECK")
		nb = scs.NewBuilder
		if g.PadN == 0 {
			g.PadN = commitPad
		}
		pad = g.PadN
		g.In = append(append([]string{}, g.In...), "5")
	case "native-r1cs", "native-r1cs-env":
		os.Unsetenv("USE_BIT_DECOMPOSITION_RANGE_CHECK")
		if g.Cfg == "native-r1cs-env" {
			os.Setenv("USE_BIT_DECOMPOSITION_RANGE_CHECK", "true")
		}
		nb = func(f *big.Int, c frontend.CompileConfig) (frontend.Builder, error) {
			b, err := r1cs.NewBuilder(f, c)
			if err != nil {
				return nil, err
			}
			return nativeBuilder{b, &calls}, nil
		}
	default:
		return false, "unknown cfg " + g.Cfg
	}
	circuit := &gadgetCircuit{Gadget: g.Gadget, N: g.N, Pad: pad, In: make([]frontend.Variable, len(g.In)), Out: make([]frontend.Variable, len(g.Out))}
	var cs constraint.ConstraintSystem
	err := func() (err error) {
		defer func() {
			if e := recover(); e != nil {
				err = fmt.Errorf("compile panic: %v", e)
			}
		}()
		quiet(func() { cs, err = frontend.Compile(R, nb, circuit) })
		return err
	}()
	if err != nil {
		return false, "compile: " + err.Error()
	}
	assign := &gadgetCircuit{Gadget: g.Gadget, N: g.N, Pad: pad}
	for _, v := range bigs(g.In) {
		assign.In = append(assign.In, v)
	}
	for _, v := range bigs(g.Out) {
		assign.Out = append(assign.Out, v)
	}
	var w witness.Witness
	quiet(func() { w, err = frontend.NewWitness(assign, R) })
	if err != nil {
		return false, "witness: " + err.Error()
	}
	// overrides keyed by hint name and input tuple
	byHint := map[string]map[string][]*big.Int{}
	for _, o := range g.Overrides {
		if byHint[o.Hint] == nil {
			byHint[o.Hint] = map[string][]*big.Int{}
		}
		byHint[o.Hint][strings.Join(o.In, ",")] = bigs(o.Out)
	}
	var opts []solver.Option
	for name, tbl := range byHint {
		orig, ok := repoHints[name]
		if !ok {
			return false, "cannot override hint " + name
		}
		tbl := tbl
		opts = append(opts, solver.OverrideHint(solver.GetHintID(orig), func(m *big.Int, in []*big.Int, out []*big.Int) error {
			if forced, ok := tbl[strings.Join(strs(in), ",")]; ok && len(forced) == len(out) {
				for i := range out {
					out[i].Set(forced[i])
				}
				return nil
			}
			return orig(m, in, out)
		}))
	}
	// commitments: outside a prover the commitment hint is a placeholder; any function of the committed
	// values serves as the Fiat-Shamir challenge (a hash here)
	commitHint := func(_ *big.Int, in []*big.Int, out []*big.Int) error {
		h := sha256.New()
		for _, v := range in {
			h.Write(v.Bytes())
			h.Write([]byte{0})
		}
		out[0].SetBytes(h.Sum(nil))
		out[0].Mod(out[0], R)
		return nil
	}
	switch cm := cs.GetCommitments().(type) {
	case constraint.Groth16Commitments:
		for _, c := range cm {
			opts = append(opts, solver.OverrideHint(c.HintID, commitHint))
		}
	case constraint.PlonkCommitments:
		for _, c := range cm {
			opts = append(opts, solver.OverrideHint(c.HintID, commitHint))
		}
	}
	err = cs.IsSolved(w, opts...)
	if err != nil {
		e := err.Error()
		if len(e) > 160 {
			e = e[:160]
		}
		return false, e
	}
	_ = calls
	return true, ""
}

func replayFile(path, repo string) int {
	b, err := os.ReadFile(path)
	if err != nil {
		fmt.Println("replay:", err)
		return 2
	}
	var doc struct {
		Property string          `json:"property"`
		What     string          `json:"what"`
		Replay   json.RawMessage `json:"replay"`
	}
	if err := json.Unmarshal(b, &doc); err != nil {
		fmt.Println("replay:", err)
		return 2
	}
	var kind struct {
		Kind string `json:"kind"`
	}
	json.Unmarshal(doc.Replay, &kind)
	switch kind.Kind {
	case "gadget":
		var g gadgetReplay
		json.Unmarshal(doc.Replay, &g)
		acc, msg := runGadgetReplay(&g)
		fmt.Printf("replay %s: gadget=%s n=%d cfg=%s in=%v claimed out=%v -> accepted=%v %s\n", doc.Property, g.Gadget, g.N, g.Cfg, g.In, g.Out, acc, msg)
		if acc == (g.Expect == "accepted") {
			fmt.Printf("VIOLATION property=%s replay=%s\n", doc.Property, path)
			return 1
		}
		fmt.Println("not reproduced on the current tree")
		return 0
	default:
		if f, ok := replayKinds[kind.Kind]; ok {
			return f(doc.Property, path, doc.Replay, repo)
		}
	}
	// every other kind (functional, merkle, vc, ...) is re-derived: the property's check is run again on
	// the current tree, restricted to the recorded case when there is one; evidence and replays of this
	// re-run go to a scratch directory so that the committed evidence is not touched
	var rc struct {
		Case string `json:"case"`
	}
	json.Unmarshal(doc.Replay, &rc)
	d, ok := drivers[doc.Property]
	if !ok {
		fmt.Println("replay: unknown kind", kind.Kind)
		return 2
	}
	if rc.Case != "" {
		// case names are recorded abbreviated in some messages: use the part before an ellipsis
		c := rc.Case
		if i := strings.Index(c, "…"); i > 0 {
			c = c[:i]
		}
		os.Setenv("VERIF_ONLY", c)
	}
	tmp, _ := os.MkdirTemp("", "vreplay")
	defer os.RemoveAll(tmp)
	os.Setenv("VERIF_OUT", tmp)
	fmt.Printf("replay %s: kind %q is replayed by re-running the check (case %q) on the current tree\n", doc.Property, kind.Kind, rc.Case)
	r := &Run{ID: doc.Property, Tier: "quick", Seed: 1, Scratch: tmp, Repo: repo, Verif: "/verif", t0: time.Now(), pool: smt.NewPool(14), Bounds: map[string]any{}, Extra: map[string]any{}}
	defer r.pool.Close()
	d(r)
	code := r.Finish()
	if code == 0 {
		fmt.Println("not reproduced on the current tree")
	}
	return code
}

var replayKinds = map[string]func(prop, path string, raw json.RawMessage, repo string) int{}
