package main

import (
	"fmt"
	"os"
	"path/filepath"
	"strings"

	"github.com/consensys/gnark/frontend"
	"github.com/consensys/gnark/test"
	"github.com/wormhole-foundation/example-near-light-client/types"
	"github.com/wormhole-foundation/example-near-light-client/verifier"
	"github.com/wormhole-foundation/example-near-light-client/challenger"
	gl "github.com/wormhole-foundation/example-near-light-client/goldilocks"
	"github.com/wormhole-foundation/example-near-light-client/poseidon"
	"github.com/wormhole-foundation/example-near-light-client/variables"

	"verif/engine/ref"
	"verif/engine/smt"
	"verif/engine/sym"
)

func init() { drivers["C11"] = runC11 }

// hookToVecBN replaces BN254Chip.ToVec by the uninterpreted chunking (contract: C10).
func hookToVecBN(recv any, args []any) []any {
	e := cur
	h := e.K(args[0])
	out := make([]gl.Variable, 5)
	for i := range out {
		out[i] = gl.NewVariable(e.UF("chunk", i, sym.Pm1, h))
	}
	return []any{out}
}

func transcriptHooks() map[string]hookFn {
	return map[string]hookFn{"poseidon.GoldilocksChip.Poseidon": hookPermGL, "poseidon.BN254Chip.ToVec": hookToVecBN}
}

type chOp struct {
	name string
	run  func(fc *fctx, c *challenger.Chip, rc *ref.Challenger) ([]frontend.Variable, []*ref.N)
}

func challengerOps() []chOp {
	glv := func(fc *fctx, n string) (gl.Variable, *ref.N) { return fc.glIn(n) }
	return []chOp{
		{"ObserveElement", func(fc *fctx, c *challenger.Chip, rc *ref.Challenger) ([]frontend.Variable, []*ref.N) {
			e, re := glv(fc, "e")
			c.ObserveElement(e)
			rc.ObserveElement(re)
			return nil, nil
		}},
		{"ObserveElements[9]", func(fc *fctx, c *challenger.Chip, rc *ref.Challenger) ([]frontend.Variable, []*ref.N) {
			var es []gl.Variable
			var res []*ref.N
			for i := 0; i < 9; i++ {
				e, re := glv(fc, fmt.Sprintf("e%d", i))
				es = append(es, e)
				res = append(res, re)
			}
			c.ObserveElements(es)
			rc.ObserveElements(res)
			return nil, nil
		}},
		// empty batches are no-ops in plonky2 (the output buffer is cleared only when something is absorbed)
		{"ObserveElements[0]", func(fc *fctx, c *challenger.Chip, rc *ref.Challenger) ([]frontend.Variable, []*ref.N) {
			c.ObserveElements([]gl.Variable{})
			rc.ObserveElements(nil)
			return nil, nil
		}},
		{"ObserveCap[0]", func(fc *fctx, c *challenger.Chip, rc *ref.Challenger) ([]frontend.Variable, []*ref.N) {
			c.ObserveCap([]poseidon.BN254HashOut{})
			rc.ObserveCap(nil)
			return nil, nil
		}},
		{"ObserveExtensionElements[0]", func(fc *fctx, c *challenger.Chip, rc *ref.Challenger) ([]frontend.Variable, []*ref.N) {
			c.ObserveExtensionElements([]gl.QuadraticExtensionVariable{})
			rc.ObserveExts(nil)
			return nil, nil
		}},
		{"ObserveExtensionElements[2]", func(fc *fctx, c *challenger.Chip, rc *ref.Challenger) ([]frontend.Variable, []*ref.N) {
			x, rx := fc.qeIn("x")
			y, ry := fc.qeIn("y")
			c.ObserveExtensionElements([]gl.QuadraticExtensionVariable{x, y})
			rc.ObserveExts([]ref.E{rx, ry})
			return nil, nil
		}},
		{"GetNChallenges[0]", func(fc *fctx, c *challenger.Chip, rc *ref.Challenger) ([]frontend.Variable, []*ref.N) {
			c.GetNChallenges(0)
			rc.GetNChallenges(0)
			return nil, nil
		}},
		{"ObserveHash", func(fc *fctx, c *challenger.Chip, rc *ref.Challenger) ([]frontend.Variable, []*ref.N) {
			var h poseidon.GoldilocksHashOut
			var rh [4]*ref.N
			for i := range h {
				h[i], rh[i] = glv(fc, fmt.Sprintf("h%d", i))
			}
			c.ObserveHash(h)
			rc.ObserveHashGL(rh)
			return nil, nil
		}},
		{"ObserveBN254Hash", func(fc *fctx, c *challenger.Chip, rc *ref.Challenger) ([]frontend.Variable, []*ref.N) {
			h, rh := fc.bnIn("bh")
			c.ObserveBN254Hash(h)
			rc.ObserveHashBN(rh)
			return nil, nil
		}},
		{"ObserveCap[2]", func(fc *fctx, c *challenger.Chip, rc *ref.Challenger) ([]frontend.Variable, []*ref.N) {
			h0, r0 := fc.bnIn("cap0")
			h1, r1 := fc.bnIn("cap1")
			c.ObserveCap([]poseidon.BN254HashOut{h0, h1})
			rc.ObserveCap([]*ref.N{r0, r1})
			return nil, nil
		}},
		{"ObserveExtensionElement", func(fc *fctx, c *challenger.Chip, rc *ref.Challenger) ([]frontend.Variable, []*ref.N) {
			x, rx := fc.qeIn("x")
			c.ObserveExtensionElement(x)
			rc.ObserveExt(rx)
			return nil, nil
		}},
		{"GetChallenge", func(fc *fctx, c *challenger.Chip, rc *ref.Challenger) ([]frontend.Variable, []*ref.N) {
			return []frontend.Variable{c.GetChallenge().Limb}, []*ref.N{rc.GetChallenge()}
		}},
		{"GetNChallenges[3]", func(fc *fctx, c *challenger.Chip, rc *ref.Challenger) ([]frontend.Variable, []*ref.N) {
			var o []frontend.Variable
			for _, v := range c.GetNChallenges(3) {
				o = append(o, v.Limb)
			}
			return o, rc.GetNChallenges(3)
		}},
		{"GetExtensionChallenge", func(fc *fctx, c *challenger.Chip, rc *ref.Challenger) ([]frontend.Variable, []*ref.N) {
			x := c.GetExtensionChallenge()
			rx := rc.GetExtChallenge()
			return []frontend.Variable{x[0].Limb, x[1].Limb}, []*ref.N{rx[0], rx[1]}
		}},
		{"GetHash", func(fc *fctx, c *challenger.Chip, rc *ref.Challenger) ([]frontend.Variable, []*ref.N) {
			h := c.GetHash()
			rh := rc.GetHash()
			return []frontend.Variable{h[0].Limb, h[1].Limb, h[2].Limb, h[3].Limb}, rh[:]
		}},
		{"Observe;Get;Observe;Get", func(fc *fctx, c *challenger.Chip, rc *ref.Challenger) ([]frontend.Variable, []*ref.N) {
			e, re := glv(fc, "e")
			f, rf := glv(fc, "f")
			c.ObserveElement(e)
			rc.ObserveElement(re)
			a, ra := c.GetChallenge(), rc.GetChallenge()
			c.ObserveElement(f)
			rc.ObserveElement(rf)
			b, rb := c.GetChallenge(), rc.GetChallenge()
			return []frontend.Variable{a.Limb, b.Limb}, []*ref.N{ra, rb}
		}},
	}
}

var sawMismatch bool

func runC11(r *Run) {
	r.Functions = []string{"challenger.(*Chip).{ObserveElement,ObserveElements,ObserveHash,ObserveBN254Hash,ObserveCap,ObserveExtensionElement,ObserveExtensionElements,ObserveOpenings,GetChallenge,GetNChallenges,GetExtensionChallenge,GetHash,GetFriChallenges,duplexing}", "verifier.(*VerifierChip).GetChallenges", "fri.(*Chip).ToOpenings", "verifier.(*VerifierChip).GetPublicInputsHash"}
	kb, err := ref.LoadBN128Consts(filepath.Join(r.Repo, "crypto/plonky2_bn128/src/poseidon_bn128_constants.rs"))
	if err == nil {
		concreteBN = kb
	}
	concreteGL = glConstsFromRepo()
	hooks := transcriptHooks()
	// ---- (i) one step from an arbitrary state: covers observe/squeeze histories of any length -------
	nCases := 0
	var lenMismatch []string
	var stats []any
	for inLen := 0; inLen <= 7; inLen++ {
		for outLen := 0; outLen <= 8; outLen++ {
			if !r.Thorough() && inLen > 0 && outLen > 0 && !(inLen == 7 && outLen == 8) && !(inLen == 3 && outLen == 2) {
				continue // quick: the reachable states (one buffer empty) plus two mixed ones
			}
			for _, op := range challengerOps() {
				inLen, outLen, op := inLen, outLen, op
				name := fmt.Sprintf("step[in=%d,out=%d] %s", inLen, outLen, op.name)
				mk := func(mode int, name string) fieldCase {
					return fieldCase{name: name, bound: fmt.Sprintf("arbitrary sponge state, %d buffered inputs, %d buffered outputs (all symbolic), permutation and hash chunking uninterpreted", inLen, outLen), build: func(fc *fctx) ([]frontend.Variable, []*ref.N) {
						ch := challenger.NewChip(fc.api)
						perm := fc.rb.GLPermUF()
						rc := ref.NewChallenger(fc.rb, perm, fc.rb.ChunkUF)
						st := fieldOf[poseidon.GoldilocksState](ch, "spongeState")
						for i := range st {
							st[i], rc.State[i] = fc.glIn(fmt.Sprintf("st%d", i))
						}
						ib := fieldOf[[]gl.Variable](ch, "inputBuffer")
						ob := fieldOf[[]gl.Variable](ch, "outputBuffer")
						*ib, *ob = nil, nil
						for i := 0; i < inLen; i++ {
							v, rv := fc.glIn(fmt.Sprintf("ib%d", i))
							*ib = append(*ib, v)
							rc.In = append(rc.In, rv)
						}
						for i := 0; i < outLen; i++ {
							v, rv := fc.glIn(fmt.Sprintf("ob%d", i))
							*ob = append(*ob, v)
							// while inputs are pending the buffered outputs can never be used again: the
							// reference (which clears them on observe) is compared from its own canonical
							// form, the implementation from ANY leftover contents
							if inLen == 0 {
								rc.Out = append(rc.Out, rv)
							}
						}
						outs, refs := op.run(fc, ch, rc)
						// resulting state
						pending := len(*ib) > 0
						if len(*ib) != len(rc.In) || (!pending && len(*ob) != len(rc.Out)) {
							// the internal states have different shapes: make the difference observable by
							// drawing challenges from both (a functional disagreement is then replayed)
							lenMismatch = append(lenMismatch, fmt.Sprintf("%s: buffers %d/%d, reference %d/%d", name, len(*ib), len(*ob), len(rc.In), len(rc.Out)))
							sawMismatch = true
							if mode == 0 {
								for i := 0; i < 9; i++ {
									outs = append(outs, ch.GetChallenge().Limb)
									refs = append(refs, rc.GetChallenge())
								}
							} else {
								pe, rpe := fc.glIn("probe")
								ch.ObserveElement(pe)
								rc.ObserveElement(rpe)
								for i := 0; i < 9; i++ {
									outs = append(outs, ch.GetChallenge().Limb)
									refs = append(refs, rc.GetChallenge())
								}
							}
							return outs, refs
						}
						if len(*ib) > 7 {
							lenMismatch = append(lenMismatch, fmt.Sprintf("%s: input buffer of length %d left behind (invariant len <= 7 broken)", name, len(*ib)))
						}
						for i := range st {
							outs = append(outs, st[i].Limb)
							refs = append(refs, rc.State[i])
						}
						for i := range *ib {
							outs = append(outs, (*ib)[i].Limb)
							refs = append(refs, rc.In[i])
						}
						if !pending {
							for i := range *ob {
								outs = append(outs, (*ob)[i].Limb)
								refs = append(refs, rc.Out[i])
							}
						}
						return outs, refs
					}}
				}
				sawMismatch = false
				q := runFieldCase(r, "challenger-step", mk(0, name), hooks)
				if sawMismatch {
					// second probe: observe first, then draw (exposes a state that was permuted too early)
					runFieldCase(r, "challenger-step", mk(1, name+" (probe: observe then draw)"), hooks)
				}
				nCases++
				if q != nil && len(stats) < 2 {
					stats = append(stats, q.stats())
				}
			}
			r.Discharge()
		}
	}
	// ---- (i-b) base case: the state NewChip starts from is plonky2's (zero state, both buffers empty) ----
	for _, op := range challengerOps() {
		op := op
		for _, follow := range []bool{false, true} {
			follow := follow
			name := "fresh challenger: " + op.name
			if follow {
				name += ", then observe one element and draw 9 challenges"
			}
			runFieldCase(r, "challenger-step", fieldCase{name: name, bound: "the challenger as NewChip returns it; operands symbolic, permutation and hash chunking uninterpreted", build: func(fc *fctx) ([]frontend.Variable, []*ref.N) {
				ch := challenger.NewChip(fc.api)
				rc := ref.NewChallenger(fc.rb, fc.rb.GLPermUF(), fc.rb.ChunkUF)
				outs, refs := op.run(fc, ch, rc)
				if follow {
					pe, rpe := fc.glIn("probe")
					ch.ObserveElement(pe)
					rc.ObserveElement(rpe)
				}
				for i := 0; i < 9; i++ {
					outs = append(outs, ch.GetChallenge().Limb)
					refs = append(refs, rc.GetChallenge())
				}
				return outs, refs
			}}, hooks)
			nCases++
		}
	}
	r.Discharge()
	for _, m := range lenMismatch {
		r.Note("challenger state shape differs from the reference (probed twice: by drawing 9 challenges, and by observing one more element and then drawing 9 challenges): %s", m)
	}
	for _, s := range stats {
		r.Sample(s)
	}
	r.Extra["one_step_cases"] = nCases

	// ---- (ii) the whole transcript of the real shapes ---------------------------------------------
	names := []string{"test_circuit"}
	if r.Thorough() {
		names = append(names, "random/CGZPhFRkL3NvmGaXWBc6N7qJD519EUe6vyNpaEyDe2Ev")
	}
	for _, nm := range names {
		base := loadInstance(r.Repo, nm)
		ks := []int{1}
		if r.Thorough() {
			ks = []int{1, 28}
		}
		for _, k := range ks {
			in := base
			if k < len(base.Proof.Proof.OpeningProof.QueryRoundProofs) {
				in = base.restrict(k)
			}
			transcriptCheck(r, in)
			r.Discharge()
			if k == 1 {
				transcriptCheckCfg(r, perturbConfig(in), true)
				r.Discharge()
				// the transcript does not depend on the grinding difficulty either (the witness is always absorbed)
				for _, b := range []uint64{0, 1} {
					pc := *in
					pc.Name = fmt.Sprintf("%s/proof_of_work_bits=%d", in.Name, b)
					c := in.Common
					c.Config.FriConfig.ProofOfWorkBits = b
					c.FriParams.Config.ProofOfWorkBits = b
					pc.Common = c
					transcriptCheckCfg(r, &pc, true)
					r.Discharge()
				}
			}
		}
	}
	r.Bounds["one_step"] = "states are compared up to observational equivalence (buffered outputs are dead while inputs are pending); every operation from every buffer-length pair (thorough: all 72; quick: the 17 reachable ones + 2 mixed), symbolic contents and sponge state: an inductive step, so histories of any length"
	r.Bounds["transcripts"] = "whole GetChallenges of the real shapes (quick: test_circuit k=1; thorough: + the 97-input circuit, k in {1,28})"
	r.Assumptions = append(r.Assumptions,
		"the Goldilocks permutation and the 56-bit chunking of BN254 hashes are uninterpreted functions on both sides (equal to plonky2's by C09 / C10); Reduce of buffered inputs by its contract",
		"binding is established through equality with the reference transcript (every observed value is an argument of the hash chain) plus explicit dependency queries for one element of every kind of proof data")
	r.Outside = append(r.Outside, "collision resistance of the sponge")
}

// transcriptCheck compares every challenge of the real GetChallenges with the reference transcript.
// twiceCircuit derives the challenges of the same proof twice on one VerifierChip.
type twiceCircuit struct {
	Proof        variables.Proof
	PublicInputs []gl.Variable
	VD           variables.VerifierOnlyCircuitData
	Common       types.CommonCircuitData `gnark:"-"`
}

func (c *twiceCircuit) Define(api frontend.API) error {
	chip := verifier.NewVerifierChip(api, c.Common)
	h := chip.GetPublicInputsHash(c.PublicInputs)
	a := chip.GetChallenges(c.Proof, h, c.VD)
	b := chip.GetChallenges(c.Proof, h, c.VD)
	g := gl.New(api)
	for i := range a.PlonkBetas {
		g.AssertIsEqual(a.PlonkBetas[i], b.PlonkBetas[i])
	}
	g.AssertIsEqual(a.PlonkZeta[0], b.PlonkZeta[0])
	g.AssertIsEqual(a.FriChallenges.FriPowResponse, b.FriChallenges.FriPowResponse)
	for i := range a.FriChallenges.FriQueryIndices {
		g.AssertIsEqual(a.FriChallenges.FriQueryIndices[i], b.FriChallenges.FriQueryIndices[i])
	}
	return nil
}

func transcriptCheck(r *Run, in *instance) { transcriptCheckCfg(r, in, false) }

// perturbConfig returns the instance with every description field the transcript does not depend on in
// plonky2 (everything but num_challenges; the proof itself is unchanged) set to another, distinct value.
func perturbConfig(in *instance) *instance {
	p := *in
	p.Name = in.Name + "/other-config"
	c := in.Common
	c.Config.NumConstants += 3
	c.Config.NumWires += 5
	c.Config.NumRoutedWires += 7
	c.Config.SecurityBits += 11
	c.Config.MaxQuotientDegreeFactor += 13
	c.NumConstants += 17
	c.NumGateConstraints += 19
	c.NumPartialProducts += 23
	c.QuotientDegreeFactor += 29
	p.Common = c
	return &p
}

// transcriptCheckCfg: with perturbed set, the instance carries description fields the transcript must not
// depend on; the later phases of Verify may then fail, which is of no concern once the challenges exist.
func transcriptCheckCfg(r *Run, in *instance, perturbed bool) {
	var got *variables.ProofChallenges
	var pih *poseidon.GoldilocksHashOut
	extra := transcriptHooks()
	extra["verifier.VerifierChip.GetChallenges"] = observe2("verifier.VerifierChip.GetChallenges", func(recv any, args []any) {
		h := args[1].(poseidon.GoldilocksHashOut)
		pih = &h
	}, func(res []any) {
		c := res[0].(variables.ProofChallenges)
		got = &c
	})
	w := walkVerifier(in, walkOpts{Wrapper: "verifier", Cap: capPlain, Field: true, PermGL: true, PermBN: true, NoShape: true, Extra: extra})
	if (w.Panic != "" || w.Err != nil) && !(perturbed && got != nil && pih != nil) {
		if perturbed {
			r.Infra("%s: the walk stops before the challenges are derived: %s %v", in.Name, short(w.Panic, 160), w.Err)
			return
		}
		walkFailed(r, in, "verifier", w)
		return
	}
	if !perturbed {
		// a second transcript on the same chip starts from a fresh challenger, as every proof does in
		// plonky2: on the real code (gnark test engine), two GetChallenges calls on one chip with the same
		// proof must give the same challenges
		c, wit := &twiceCircuit{Proof: cloneValue(in.Proof.Proof), PublicInputs: cloneValue(in.Proof.PublicInputs), VD: cloneValue(in.VD), Common: in.Common}, &twiceCircuit{Proof: cloneValue(in.Proof.Proof), PublicInputs: cloneValue(in.Proof.PublicInputs), VD: cloneValue(in.VD), Common: in.Common}
		clearHooks()
		os.Setenv("USE_BIT_DECOMPOSITION_RANGE_CHECK", "true")
		var err error
		pm := catchPanic(func() { quiet(func() { err = test.IsSolved(c, wit, R) }) })
		os.Unsetenv("USE_BIT_DECOMPOSITION_RANGE_CHECK")
		forgetChips()
		if pm != "" || err != nil {
			r.addViolationWithReplay("second transcript on the same verifier chip", fmt.Sprintf("%s: GetChallenges called a second time on the same VerifierChip with the same proof gives other challenges than the first time (every transcript must start from a fresh challenger)", in.Name), map[string]any{"kind": "vc", "observation": "two GetChallenges calls on one chip"}, "gnark test engine on the real code: "+short(pm+fmt.Sprint(err), 120))
		}
	}
	if got == nil || pih == nil {
		r.addViolationStructural("transcript not derived", fmt.Sprintf("%s: Verify does not derive its challenges through GetChallenges / the public-input hash", in.Name))
		return
	}
	e := w.E
	rb := ref.NewB()
	vr := func(v frontend.Variable, big_ bool) *ref.N {
		t := e.K(v)
		if t.IsConst() {
			if big_ {
				return rb.ConstR(t.C)
			}
			return rb.Const(t.C)
		}
		if big_ {
			return rb.VarR(t, t.Name)
		}
		return rb.Var(t, t.Name)
	}
	ext := func(l []gl.QuadraticExtensionVariable) []ref.E {
		var o []ref.E
		for _, x := range l {
			o = append(o, ref.E{vr(x[0].Limb, false), vr(x[1].Limb, false)})
		}
		return o
	}
	capR := func(c []poseidon.BN254HashOut) []*ref.N {
		var o []*ref.N
		for _, h := range c {
			o = append(o, vr(h, true))
		}
		return o
	}
	pr := w.VC.Proof
	// public-input hash: reference sponge over the reduced public inputs
	var rpi []*ref.N
	for _, p := range w.VC.PublicInputs {
		rpi = append(rpi, vr(p.Limb, false))
	}
	perm := rb.GLPermUF()
	rhash := rb.GLHashNoPad(perm, rpi)
	pd := &ref.ProofData{CircuitDigest: vr(w.VC.VerifierData.CircuitDigest, true), PublicInputsHash: rhash,
		WiresCap: capR(pr.WiresCap), ZsPartialCap: capR(pr.PlonkZsPartialProductsCap), QuotientCap: capR(pr.QuotientPolysCap),
		Constants: ext(pr.Openings.Constants), Sigmas: ext(pr.Openings.PlonkSigmas), Wires: ext(pr.Openings.Wires), Zs: ext(pr.Openings.PlonkZs),
		PartialProducts: ext(pr.Openings.PartialProducts), Quotients: ext(pr.Openings.QuotientPolys), ZsNext: ext(pr.Openings.PlonkZsNext),
		FinalPoly: ext(pr.OpeningProof.FinalPoly.Coeffs), PowWitness: vr(pr.OpeningProof.PowWitness.Limb, false)}
	for _, c := range pr.OpeningProof.CommitPhaseMerkleCaps {
		pd.CommitCaps = append(pd.CommitCaps, capR(c))
	}
	rc := ref.NewChallenger(rb, perm, rb.ChunkUF)
	want := rc.GetChallenges(pd, int(in.Common.Config.NumChallenges), int(in.Common.Config.FriConfig.NumQueryRounds))
	q := newEqCheck(r, "transcript["+in.Name+"]", "transcript", e, rb)
	q.bound = "whole transcript of " + in.Name + ": every proof element symbolic, hashes uninterpreted"
	q.sweepDefs(w.F.defs)
	type pair struct {
		label string
		t     *sym.Term
		n     *ref.N
	}
	var pairs []pair
	add := func(label string, v gl.Variable, n *ref.N) { pairs = append(pairs, pair{label, e.K(v.Limb), n}) }
	for i := 0; i < 4; i++ {
		add(fmt.Sprintf("public_inputs_hash[%d]", i), (*pih)[i], rhash[i])
	}
	if len(got.PlonkBetas) != len(want.Betas) || len(got.PlonkGammas) != len(want.Gammas) || len(got.PlonkAlphas) != len(want.Alphas) || len(got.FriChallenges.FriBetas) != len(want.Fri.Betas) || len(got.FriChallenges.FriQueryIndices) != len(want.Fri.QueryIndices) {
		r.addViolationStructural("number of challenges", fmt.Sprintf("%s: the verifier draws %d/%d/%d PLONK challenges, %d FRI betas and %d query indices; plonky2's transcript has %d/%d/%d, %d and %d", in.Name, len(got.PlonkBetas), len(got.PlonkGammas), len(got.PlonkAlphas), len(got.FriChallenges.FriBetas), len(got.FriChallenges.FriQueryIndices), len(want.Betas), len(want.Gammas), len(want.Alphas), len(want.Fri.Betas), len(want.Fri.QueryIndices)))
		return
	}
	for i := range want.Betas {
		add(fmt.Sprintf("plonk_beta[%d]", i), got.PlonkBetas[i], want.Betas[i])
		add(fmt.Sprintf("plonk_gamma[%d]", i), got.PlonkGammas[i], want.Gammas[i])
		add(fmt.Sprintf("plonk_alpha[%d]", i), got.PlonkAlphas[i], want.Alphas[i])
	}
	add("plonk_zeta[0]", got.PlonkZeta[0], want.Zeta[0])
	add("plonk_zeta[1]", got.PlonkZeta[1], want.Zeta[1])
	add("fri_alpha[0]", got.FriChallenges.FriAlpha[0], want.Fri.Alpha[0])
	add("fri_alpha[1]", got.FriChallenges.FriAlpha[1], want.Fri.Alpha[1])
	for i := range want.Fri.Betas {
		add(fmt.Sprintf("fri_beta[%d][0]", i), got.FriChallenges.FriBetas[i][0], want.Fri.Betas[i][0])
		add(fmt.Sprintf("fri_beta[%d][1]", i), got.FriChallenges.FriBetas[i][1], want.Fri.Betas[i][1])
	}
	add("fri_pow_response", got.FriChallenges.FriPowResponse, want.Fri.PowResponse)
	for i := range want.Fri.QueryIndices {
		add(fmt.Sprintf("fri_query_index[%d]", i), got.FriChallenges.FriQueryIndices[i], want.Fri.QueryIndices[i])
	}
	for _, p := range pairs {
		ok, diff := q.output(p.label, p.t, p.n)
		if ok {
			continue
		}
		if diff >= 0 {
			label := p.label
			if perturbed {
				r.addViolationStructural("transcript depends on unrelated description fields", fmt.Sprintf("%s: with description fields other than num_challenges changed (num_constants, num_wires, num_routed_wires, security_bits, max_quotient_degree_factor, num_gate_constraints, num_partial_products, quotient_degree_factor; or the grinding difficulty, as the name says) challenge %s is no longer the one plonky2's transcript yields", in.Name, label))
				return
			}
			// replay: the real circuit must reject the honest proof if its challenges differ from plonky2's
			cr := &circuitReplay{Kind: "circuit", Wrapper: "verifier", Instance: in.Base, K: in.K, Expect: "rejected"}
			acc, msg := runCircuitReplay(cr, r.Repo)
			if !acc {
				r.mu.Lock()
				r.done = append(r.done, obResult{ob: &Ob{Name: "transcript/" + label, Family: "transcript", Site: "transcript order"}, res: smt.Result{Status: smt.Sat, Solver: "sample"}, status: "violation",
					viol: &Violation{Site: "transcript order", What: fmt.Sprintf("challenge %s is not the one plonky2's transcript yields (terms differ at a sample point); the real circuit rejects the honest proof: %s", label, short(msg, 100)), Replay: toMap(cr), Outcome: "real circuit (test.IsSolved) rejects the unmodified valid proof"}})
				r.mu.Unlock()
			} else {
				r.Infra("%s: challenge %s differs from the reference transcript at a sample point, but the honest proof is still accepted by the real circuit", in.Name, label)
			}
			return
		}
		r.Infra("%s: challenge %s agrees with the reference at all sample points but no proof was found", in.Name, p.label)
	}
	if perturbed {
		st := q.stats()
		st["challenges_compared"] = len(pairs)
		st["instance"] = in.Name
		r.Sample(st)
		return
	}
	// explicit binding queries: one element of every kind of proof data influences the next challenge drawn
	kinds := []struct{ leaf, next string }{
		{".VerifierData.CircuitDigest", "plonk_beta[0]"}, {".PublicInputs[0].Limb", "plonk_beta[0]"}, {".Proof.WiresCap[15]", "plonk_beta[0]"},
		{".Proof.PlonkZsPartialProductsCap[7]", "plonk_alpha[0]"}, {".Proof.QuotientPolysCap[0]", "plonk_zeta[0]"},
		{".Proof.Openings.Constants[0][1].Limb", "fri_alpha[0]"}, {".Proof.Openings.PlonkSigmas[79][0].Limb", "fri_alpha[0]"}, {".Proof.Openings.Wires[134][1].Limb", "fri_alpha[0]"},
		{".Proof.Openings.PlonkZs[1][0].Limb", "fri_alpha[0]"}, {".Proof.Openings.PlonkZsNext[1][1].Limb", "fri_alpha[0]"}, {".Proof.Openings.PartialProducts[17][0].Limb", "fri_alpha[0]"},
		{".Proof.Openings.QuotientPolys[15][1].Limb", "fri_alpha[0]"}, {".Proof.OpeningProof.CommitPhaseMerkleCaps[0][3]", "fri_beta[0][0]"}, {".Proof.OpeningProof.CommitPhaseMerkleCaps[1][15]", "fri_beta[1][1]"},
		{".Proof.OpeningProof.FinalPoly.Coeffs[15][1].Limb", "fri_pow_response"}, {".Proof.OpeningProof.PowWitness.Limb", "fri_pow_response"}, {".Proof.OpeningProof.PowWitness.Limb", "fri_query_index[0]"},
	}
	byLabel := map[string]*sym.Term{}
	for _, p := range pairs {
		byLabel[p.label] = p.t
	}
	nb := 0
	for _, kd := range kinds {
		var a *sym.Term
		for _, l := range w.Leaves {
			if l.Path == kd.leaf {
				a = l.Atom
			}
		}
		T := byLabel[kd.next]
		if T == nil {
			continue
		}
		if a == nil {
			if strings.HasPrefix(kd.leaf, ".VerifierData") {
				continue // compile-time constant: nothing to bind
			}
			r.Infra("%s: no circuit input %s", in.Name, kd.leaf)
			continue
		}
		dep := sym.DependsOn(T, a)
		em := sym.NewEmitter()
		em.DefMode = true
		em.Abstract = func(t *sym.Term) bool { return !dep[t] }
		t1 := em.Ref(T)
		a2 := e.NamedAtom(a.Name+"_b", "input", a.Hi)
		f := em.Fork("b_", map[*sym.Term]*sym.Term{a: a2})
		t2 := f.Ref(T)
		em.Raw(f.String())
		em.Assert(fmt.Sprintf("(not (= %s %s))", t1, t2))
		kd := kd
		nb++
		r.Add(&Ob{Name: fmt.Sprintf("binding[%s] %s -> %s", in.Name, kd.leaf, kd.next), Family: "transcript-binding", Expect: smt.Sat, Script: em.String(), Fallback: []string{"cvc5", "z3-new"}, TO: 20e9, Site: "transcript binding of " + stripIdx(kd.leaf), Bound: in.Name,
			OnFail: func(res smt.Result) *Violation {
				return &Violation{What: fmt.Sprintf("challenge %s does not depend on %s (the value is not absorbed before the challenge is drawn)", kd.next, kd.leaf), Replay: map[string]any{"kind": "vc", "leaf": kd.leaf, "challenge": kd.next}, Outcome: "solver: unsat for challenge(value) != challenge(value') with hashes uninterpreted"}
			}})
	}
	st := q.stats()
	st["challenges_compared"] = len(pairs)
	st["binding_queries"] = nb
	r.Sample(st)
}
