package main

import (
	"fmt"
	"math/big"
	"path/filepath"
	"reflect"
	"sort"
	"strings"

	"github.com/consensys/gnark/frontend"
	gl "github.com/wormhole-foundation/example-near-light-client/goldilocks"
	"github.com/wormhole-foundation/example-near-light-client/types"
	"github.com/wormhole-foundation/example-near-light-client/variables"

	"verif/engine/sym"
)

// ---------------------------------------------------------------------------------------------
// Field mode: the leaf gadgets of goldilocks.Chip are replaced by their contracts (established by
// C05/C06/C07 lemmas); everything above runs as real code. Hooked results are canonical atoms
// whose Def is the (unreduced) integer expression they are congruent to modulo p.
// ---------------------------------------------------------------------------------------------

type siteRec struct {
	Kind    string
	N       uint64
	Site    string
	Count   int
	MaxBits int
	Shapes  map[string]int
}

type fieldRun struct {
	e         *sym.Ctx
	sites     map[string]*siteRec
	flags     map[string]int
	defs      []*sym.Term // every defined atom in creation order
	rangeAtom map[*sym.Term]bool
	vcShapes  map[string]*vcShape
	usePermGL bool
	usePermBN bool
	noShapes  bool
}

type vcShape struct {
	Kind   string
	N      uint64
	Script string // declarations + define-fun X
	Count  int
	Site   string
}

var fr *fieldRun

func (f *fieldRun) rec(kind string, n uint64, bits int) *siteRec {
	cs := sym.CallSite("example-near-light-client", 6)
	key := kind + " @ " + cs
	s := f.sites[key]
	if s == nil {
		s = &siteRec{Kind: kind, N: n, Site: cs, Shapes: map[string]int{}}
		f.sites[key] = s
	}
	s.Count++
	if bits > s.MaxBits {
		s.MaxBits = bits
	}
	return s
}

func (f *fieldRun) flag(format string, a ...any) {
	f.flags[fmt.Sprintf(format, a...)]++
}

// shapeOf prints the operand expression with atoms renamed by first occurrence, together with the
// interval assumptions on them: the canonical shape used to deduplicate verification conditions.
func shapeOf(x *sym.Term) string {
	names := map[*sym.Term]string{}
	var decl []string
	var rec func(n *sym.Term) string
	leaf := func(n *sym.Term) string {
		if s, ok := names[n]; ok {
			return s
		}
		nm := fmt.Sprintf("v%d", len(names))
		names[n] = nm
		decl = append(decl, fmt.Sprintf("(declare-const %s Int)(assert (and (<= %s %s) (<= %s %s)))", nm, n.Lo, nm, nm, n.Hi))
		return nm
	}
	rec = func(n *sym.Term) string {
		switch n.Op {
		case sym.OpConst:
			return n.C.String()
		case sym.OpAtom:
			return leaf(n)
		case sym.OpAdd, sym.OpMul, sym.OpSub:
			if n.Wrap {
				return fmt.Sprintf("(mod (%s %s %s) %s)", n.Op, rec(n.Args[0]), rec(n.Args[1]), R)
			}
			return "(" + n.Op.String() + " " + rec(n.Args[0]) + " " + rec(n.Args[1]) + ")"
		case sym.OpIte:
			return "(ite (= " + rec(n.Args[0]) + " 1) " + rec(n.Args[1]) + " " + rec(n.Args[2]) + ")"
		default:
			return leaf(n)
		}
	}
	t := rec(x)
	return strings.Join(decl, "\n") + "\n(define-fun X () Int " + t + ")"
}

func (f *fieldRun) vc(kind string, n uint64, x *sym.Term, s *siteRec) {
	if f.noShapes {
		return
	}
	sh := shapeOf(x)
	key := fmt.Sprintf("%s/%d\n%s", kind, n, sh)
	v := f.vcShapes[key]
	if v == nil {
		v = &vcShape{Kind: kind, N: n, Script: sh, Site: s.Site}
		f.vcShapes[key] = v
	}
	v.Count++
	s.Shapes[key]++
}

func constMod(c *big.Int, m *big.Int) *big.Int { return new(big.Int).Mod(c, m) }

func hookMulAddField(recv any, args []any) []any {
	e := cur
	a, b, c := args[0].(gl.Variable), args[1].(gl.Variable), args[2].(gl.Variable)
	A, B, C := e.K(a.Limb), e.K(b.Limb), e.K(c.Limb)
	if A.IsConst() && B.IsConst() && C.IsConst() {
		v := new(big.Int).Mul(A.C, B.C)
		v.Add(v, C.C)
		return []any{gl.NewVariable(e.Const(constMod(v, P)))}
	}
	mb := 0
	for _, x := range []*sym.Term{A, B, C} {
		if x.Hi.BitLen() > mb {
			mb = x.Hi.BitLen()
		}
		if x.Hi.Cmp(P) >= 0 {
			fr.flag("MulAdd operand not provably canonical @ %s", sym.CallSite("example-near-light-client", 4))
		}
	}
	s := fr.rec("MulAdd", 0, mb)
	m := e.Atom("ma", "muladd", sym.Pm1)
	m.Def = e.AddT(e.MulT(A, B), C)
	m.Site = s.Site
	if e.ShadowOn && m.Def.Shadow != nil {
		m.Shadow = constMod(m.Def.Shadow, P)
	}
	fr.vc("MulAdd", 0, m.Def, s)
	fr.defs = append(fr.defs, m)
	return []any{gl.NewVariable(m)}
}

func hookReduceField(recv any, args []any) []any {
	e := cur
	x := args[0].(gl.Variable)
	n := args[1].(uint64)
	X := e.K(x.Limb)
	if X.IsConst() {
		return []any{gl.NewVariable(e.Const(constMod(X.C, P)))}
	}
	s := fr.rec(fmt.Sprintf("Reduce/%d", n), n, X.Hi.BitLen())
	m := e.Atom("rd", "reduce", sym.Pm1)
	m.Def = X
	m.N = n
	m.Site = s.Site
	if e.ShadowOn && X.Shadow != nil {
		m.Shadow = constMod(X.Shadow, P)
	}
	fr.vc("Reduce", n, X, s)
	fr.defs = append(fr.defs, m)
	return []any{gl.NewVariable(m)}
}

func hookRangeCheckField(recv any, args []any) []any {
	e := cur
	x := args[0].(gl.Variable)
	X := e.K(x.Limb)
	fr.rec("RangeCheck", 0, X.Hi.BitLen())
	if X.Op == sym.OpAtom {
		if X.Hi.Cmp(sym.Pm1) > 0 {
			X.Hi = sym.Pm1
		}
		fr.rangeAtom[X] = true
		return nil
	}
	e.AssertIsLessOrEqual(X, sym.Pm1)
	return nil
}

func hookRangeNField(recv any, args []any) []any {
	e := cur
	X := e.K(args[0])
	n := args[1].(int)
	fr.rec(fmt.Sprintf("RangeN/%d", n), uint64(n), X.Hi.BitLen())
	e.AddRangeFact(X, n)
	return nil
}

func hookInverseField(recv any, args []any) []any {
	e := cur
	x := args[0].(gl.Variable)
	X := e.K(x.Limb)
	if X.Hi.Cmp(P) >= 0 {
		fr.flag("Inverse operand not provably canonical @ %s", sym.CallSite("example-near-light-client", 4))
	}
	s := fr.rec("Inverse", 0, X.Hi.BitLen())
	inv := e.Atom("inv", "inverse", sym.Pm1)
	inv.Aux = []*sym.Term{X}
	inv.Site = s.Site
	if e.ShadowOn && X.Shadow != nil {
		if X.Shadow.Sign() == 0 {
			inv.Shadow = big.NewInt(0)
		} else {
			inv.Shadow = new(big.Int).ModInverse(X.Shadow, P)
		}
	}
	fr.defs = append(fr.defs, inv)
	has := e.SubT(e.Const(big.NewInt(1)), e.IsZeroT(X))
	return []any{gl.NewVariable(inv), frontend.Variable(has)}
}

func fieldHooks() map[string]hookFn {
	return map[string]hookFn{
		"goldilocks.Chip.MulAdd":            hookMulAddField,
		"goldilocks.Chip.ReduceWithMaxBits": hookReduceField,
		"goldilocks.Chip.RangeCheck":        hookRangeCheckField,
		"goldilocks.Chip.rangeCheckerCheck": hookRangeNField,
		"goldilocks.Chip.Inverse":           hookInverseField,
	}
}

func newFieldRun(e *sym.Ctx) *fieldRun {
	fr = &fieldRun{e: e, sites: map[string]*siteRec{}, flags: map[string]int{}, rangeAtom: map[*sym.Term]bool{}, vcShapes: map[string]*vcShape{}}
	return fr
}

// ---------------------------------------------------------------------------------------------
// Real instances
// ---------------------------------------------------------------------------------------------

type instance struct {
	Base   string // name of the unrestricted instance
	K      int    // query rounds kept (0 = all)
	Name   string
	Dir    string
	Proof  variables.ProofWithPublicInputs
	RawPis []uint64
	VD     variables.VerifierOnlyCircuitData
	Common types.CommonCircuitData
}

func instancePaths(repo string) map[string][3]string {
	t := filepath.Join(repo, "gnark-plonky2-verifier/testdata/test_circuit")
	m := map[string][3]string{
		"test_circuit": {t + "/proof_with_public_inputs.json", t + "/verifier_only_circuit_data.json", t + "/common_circuit_data.json"},
		"test.json":    {filepath.Join(repo, "test.json"), t + "/verifier_only_circuit_data.json", t + "/common_circuit_data.json"},
	}
	for _, d := range []string{"random/CGZPhFRkL3NvmGaXWBc6N7qJD519EUe6vyNpaEyDe2Ev", "epoch/CbAHBGJ8VQot2m6KhH9PLasMgcDtkPJBfp9bjAEMJ8UK", "epoch/4RjXBrNcu39wutFTuFpnRHgNqgHxLMcGBKNEQdtkSBhy"} {
		p := filepath.Join(repo, "near_bft_finality/proofs", d)
		m[d] = [3]string{p + "/proof.json", p + "/verifier_data.json", p + "/common_data.json"}
	}
	return m
}

func loadInstance(repo, name string) *instance {
	p, ok := instancePaths(repo)[name]
	if !ok {
		panic("unknown instance " + name)
	}
	clearHooks()
	pr, raw := variables.DeserializeProofWithPublicInputs(types.ReadProofWithPublicInputs(p[0]))
	vd := variables.DeserializeVerifierOnlyCircuitData(types.ReadVerifierOnlyCircuitData(p[1]))
	c := types.ReadCommonCircuitData(p[2])
	return &instance{Base: name, Name: name, Dir: p[0], Proof: pr, RawPis: raw, VD: vd, Common: c}
}

// restrict returns the instance cut to its first k query rounds (configuration adjusted).
func (in *instance) restrict(k int) *instance {
	out := *in
	out.Name = fmt.Sprintf("%s[k=%d]", in.Name, k)
	out.K = k
	out.Proof.Proof.OpeningProof.QueryRoundProofs = in.Proof.Proof.OpeningProof.QueryRoundProofs[:k]
	out.Common.Config.FriConfig.NumQueryRounds = uint64(k)
	out.Common.FriParams.Config.NumQueryRounds = uint64(k)
	return &out
}

var fvType = reflect.TypeOf((*frontend.Variable)(nil)).Elem()

type leafInfo struct {
	Path   string
	Vis    string // public | secret
	Atom   *sym.Term
	Honest *big.Int
}

// symbolise replaces every frontend.Variable leaf of the circuit struct by a fresh atom, following
// gnark's schema rules (tags `gnark:"-"` skip, `,public` / `,secret`; secret by default).
func symbolise(e *sym.Ctx, circuit any, pin bool) []*leafInfo {
	var leaves []*leafInfo
	var walk func(v reflect.Value, path, vis string)
	walk = func(v reflect.Value, path, vis string) {
		switch v.Kind() {
		case reflect.Interface:
			if v.Type() == fvType {
				var honest *big.Int
				if !v.IsNil() {
					func() {
						defer func() { recover() }()
						honest = e.K(v.Interface()).C
					}()
				}
				a := e.NamedAtom("in"+sanitizePath(path), "input", sym.Rm1)
				if pin && honest != nil {
					a.Shadow = honest
				}
				leaves = append(leaves, &leafInfo{Path: path, Vis: vis, Atom: a, Honest: honest})
				v.Set(reflect.ValueOf(a))
			}
		case reflect.Struct:
			for i := 0; i < v.NumField(); i++ {
				f := v.Type().Field(i)
				tag := f.Tag.Get("gnark")
				if tag == "-" {
					continue
				}
				if !f.IsExported() {
					continue
				}
				nv := vis
				parts := strings.Split(tag, ",")
				if len(parts) > 1 {
					switch strings.TrimSpace(parts[1]) {
					case "public":
						nv = "public"
					case "secret":
						nv = "secret"
					}
				}
				walk(v.Field(i), path+"."+f.Name, nv)
			}
		case reflect.Slice, reflect.Array:
			for i := 0; i < v.Len(); i++ {
				walk(v.Index(i), fmt.Sprintf("%s[%d]", path, i), vis)
			}
		case reflect.Ptr:
			if !v.IsNil() {
				walk(v.Elem(), path, vis)
			}
		}
	}
	walk(reflect.ValueOf(circuit).Elem(), "", "secret")
	return leaves
}

func sanitizePath(p string) string {
	r := strings.NewReplacer(".", "_", "[", "_", "]", "")
	return r.Replace(p)
}

// deepCopyVars clones the slices of a proof so that symbolisation does not alias the honest one.
func cloneValue[T any](v T) T {
	return reflect.ValueOf(deepCopy(reflect.ValueOf(v))).Interface().(T)
}

func deepCopy(v reflect.Value) any {
	return deepCopyV(v).Interface()
}

func deepCopyV(v reflect.Value) reflect.Value {
	switch v.Kind() {
	case reflect.Slice:
		if v.IsNil() {
			return v
		}
		n := reflect.MakeSlice(v.Type(), v.Len(), v.Len())
		for i := 0; i < v.Len(); i++ {
			n.Index(i).Set(deepCopyV(v.Index(i)))
		}
		return n
	case reflect.Array:
		n := reflect.New(v.Type()).Elem()
		for i := 0; i < v.Len(); i++ {
			n.Index(i).Set(deepCopyV(v.Index(i)))
		}
		return n
	case reflect.Struct:
		n := reflect.New(v.Type()).Elem()
		n.Set(v)
		for i := 0; i < v.NumField(); i++ {
			if n.Field(i).CanSet() {
				n.Field(i).Set(deepCopyV(v.Field(i)))
			}
		}
		return n
	}
	return v
}

func sortedKeys[V any](m map[string]V) []string {
	var k []string
	for s := range m {
		k = append(k, s)
	}
	sort.Strings(k)
	return k
}
