package main

import (
	"encoding/json"
	"fmt"
	"math/big"
	"os"
	"reflect"
	"regexp"
	"sort"
	"strings"

	"github.com/consensys/gnark/frontend"
	"github.com/consensys/gnark/test"
	"github.com/wormhole-foundation/example-near-light-client/verifier"
)

// C20, part 2: every list of the proof structure is altered (drop first, drop last, duplicate last,
// append zero, empty) on real proofs, and the configuration is altered against an unchanged proof.
// The real Define of both wrappers is executed on the symbolic API for every altered template:
//   - Define refuses (panic / error)                       -> refused at definition time;
//   - Define goes through: the altered honest proof is evaluated on the circuit built from the
//     altered template (gnark test engine, real hashes)    -> must be rejected.

type shapeMut struct {
	Path string // list path inside the instance (".Proof.Proof.WiresCap")
	Op   string // dropfirst | droplast | duplast | appendzero | empty | cfg:<field>:<delta>
}

var idxRe = regexp.MustCompile(`\[\d+\]`)

// listPaths enumerates the slices below v; inside lists it descends into the first and the last element.
func listPaths(v reflect.Value, prefix string, out *[]string, all bool) {
	switch v.Kind() {
	case reflect.Ptr, reflect.Interface:
		if v.Type() == fvType || v.IsNil() {
			return
		}
		listPaths(v.Elem(), prefix, out, all)
	case reflect.Struct:
		for i := 0; i < v.NumField(); i++ {
			if v.Type().Field(i).IsExported() {
				listPaths(v.Field(i), prefix+"."+v.Type().Field(i).Name, out, all)
			}
		}
	case reflect.Slice:
		*out = append(*out, prefix)
		n := v.Len()
		idx := []int{0}
		if n > 1 {
			idx = append(idx, n-1)
		}
		if all {
			idx = idx[:0]
			for i := 0; i < n; i++ {
				idx = append(idx, i)
			}
		}
		for _, i := range idx {
			if i < n {
				listPaths(v.Index(i), fmt.Sprintf("%s[%d]", prefix, i), out, all)
			}
		}
	case reflect.Array:
		// fixed-size arrays (extension elements, hash outputs) cannot change shape
	}
}

// zeroed returns a copy of v with every frontend.Variable leaf set to 0 (same sub-shape).
func zeroed(v reflect.Value) reflect.Value {
	c := deepCopyV(v)
	var walk func(x reflect.Value)
	walk = func(x reflect.Value) {
		switch x.Kind() {
		case reflect.Interface:
			if x.Type() == fvType && x.CanSet() {
				x.Set(reflect.ValueOf(big.NewInt(0)))
			}
		case reflect.Struct:
			for i := 0; i < x.NumField(); i++ {
				walk(x.Field(i))
			}
		case reflect.Slice, reflect.Array:
			for i := 0; i < x.Len(); i++ {
				walk(x.Index(i))
			}
		}
	}
	n := reflect.New(c.Type()).Elem()
	n.Set(c)
	walk(n)
	return n
}

func applyListMut(root reflect.Value, m shapeMut) error {
	v, err := navigate(root, m.Path)
	if err != nil {
		return err
	}
	if v.Kind() != reflect.Slice || !v.CanSet() {
		return fmt.Errorf("%s is not a settable list", m.Path)
	}
	n := v.Len()
	var nv reflect.Value
	switch m.Op {
	case "dropfirst":
		if n == 0 {
			return fmt.Errorf("empty")
		}
		nv = reflect.AppendSlice(reflect.MakeSlice(v.Type(), 0, n), v.Slice(1, n))
	case "droplast":
		if n == 0 {
			return fmt.Errorf("empty")
		}
		nv = reflect.AppendSlice(reflect.MakeSlice(v.Type(), 0, n), v.Slice(0, n-1))
	case "duplast":
		if n == 0 {
			return fmt.Errorf("empty")
		}
		nv = reflect.Append(reflect.AppendSlice(reflect.MakeSlice(v.Type(), 0, n+1), v), deepCopyV(v.Index(n-1)))
	case "appendzero":
		var z reflect.Value
		if n > 0 {
			z = zeroed(v.Index(n - 1))
		} else {
			z = reflect.New(v.Type().Elem()).Elem()
			if z.Type() == fvType {
				z.Set(reflect.ValueOf(big.NewInt(0)))
			}
		}
		nv = reflect.Append(reflect.AppendSlice(reflect.MakeSlice(v.Type(), 0, n+1), v), z)
	case "empty":
		if n == 0 {
			return fmt.Errorf("empty")
		}
		nv = reflect.MakeSlice(v.Type(), 0, 0)
	default:
		return fmt.Errorf("unknown op %s", m.Op)
	}
	v.Set(nv)
	return nil
}

type shapeHolder struct {
	Proof any
	VD    any
}

// mutateInstance returns a copy of in with the alteration applied.
func mutateInstance(in *instance, m shapeMut) (*instance, error) {
	out := *in
	out.Proof = cloneValue(in.Proof)
	out.VD = cloneValue(in.VD)
	out.Common = cloneValue(in.Common)
	out.Name = in.Name + " " + m.Op + " " + m.Path
	if strings.HasPrefix(m.Op, "cfg:") {
		parts := strings.Split(m.Op, ":")
		delta := int64(1)
		if parts[2] == "-1" {
			delta = -1
		}
		set := func(p *uint64) { *p = uint64(int64(*p) + delta) }
		switch parts[1] {
		case "NumQueryRounds":
			set(&out.Common.Config.FriConfig.NumQueryRounds)
			set(&out.Common.FriParams.Config.NumQueryRounds)
		// the FRI configuration is carried twice (config.fri_config and fri_params.config): each copy alone
		case "NumQueryRounds(config.fri_config only)":
			set(&out.Common.Config.FriConfig.NumQueryRounds)
		case "NumQueryRounds(fri_params.config only)":
			set(&out.Common.FriParams.Config.NumQueryRounds)
		case "CapHeight(config.fri_config only)":
			set(&out.Common.Config.FriConfig.CapHeight)
		case "CapHeight(fri_params.config only)":
			set(&out.Common.FriParams.Config.CapHeight)
		case "RateBits(config.fri_config only)":
			set(&out.Common.Config.FriConfig.RateBits)
		case "RateBits(fri_params.config only)":
			set(&out.Common.FriParams.Config.RateBits)
		case "ProofOfWorkBits(config.fri_config only)":
			set(&out.Common.Config.FriConfig.ProofOfWorkBits)
		case "ProofOfWorkBits(fri_params.config only)":
			set(&out.Common.FriParams.Config.ProofOfWorkBits)
		case "DegreeBits(fri_params only)":
			set(&out.Common.FriParams.DegreeBits)
		case "DegreeBits(common only)":
			set(&out.Common.DegreeBits)
		case "CapHeight":
			set(&out.Common.Config.FriConfig.CapHeight)
			set(&out.Common.FriParams.Config.CapHeight)
		case "RateBits":
			set(&out.Common.Config.FriConfig.RateBits)
			set(&out.Common.FriParams.Config.RateBits)
		case "DegreeBits":
			set(&out.Common.FriParams.DegreeBits)
			set(&out.Common.DegreeBits)
		case "ArityBitsLast":
			a := append([]uint64{}, out.Common.FriParams.ReductionArityBits...)
			if len(a) == 0 {
				return nil, fmt.Errorf("no arity entries")
			}
			set(&a[len(a)-1])
			out.Common.FriParams.ReductionArityBits = a
		case "ArityBitsDrop":
			a := out.Common.FriParams.ReductionArityBits
			if len(a) == 0 {
				return nil, fmt.Errorf("no arity entries")
			}
			out.Common.FriParams.ReductionArityBits = append([]uint64{}, a[:len(a)-1]...)
		case "ArityBitsAdd":
			out.Common.FriParams.ReductionArityBits = append(append([]uint64{}, out.Common.FriParams.ReductionArityBits...), 1)
		case "NumChallenges":
			set(&out.Common.Config.NumChallenges)
		case "NumPartialProducts":
			set(&out.Common.NumPartialProducts)
		case "QuotientDegreeFactor":
			set(&out.Common.QuotientDegreeFactor)
		case "NumWires":
			set(&out.Common.Config.NumWires)
		case "NumRoutedWires":
			set(&out.Common.Config.NumRoutedWires)
		case "NumConstants":
			set(&out.Common.NumConstants)
		case "NumPublicInputs":
			set(&out.Common.NumPublicInputs)
		default:
			return nil, fmt.Errorf("unknown configuration field %s", parts[1])
		}
		return &out, nil
	}
	root := reflect.ValueOf(&out).Elem()
	if err := applyListMut(root, m); err != nil {
		return nil, err
	}
	return &out, nil
}

// buildCircuits makes the template and the assignment of a wrapper from an instance.
func buildCircuits(in *instance, wr string) (circuit, witness frontend.Circuit) {
	packed := func() [4]frontend.Variable {
		var out [4]frontend.Variable
		for j := 0; j < 4; j++ {
			acc := new(big.Int)
			for i := 0; i < 4 && 4*j+i < len(in.RawPis); i++ {
				acc.Lsh(acc, 32)
				acc.Add(acc, new(big.Int).SetUint64(in.RawPis[4*j+i]))
			}
			out[j] = acc
		}
		return out
	}
	if wr == "fixed" {
		return &verifier.CircuitFixed{ProofWithPis: cloneValue(in.Proof), VerifierData: cloneValue(in.VD), CommonCircuitData: in.Common, PublicInputs: packed()},
			&verifier.CircuitFixed{ProofWithPis: cloneValue(in.Proof), VerifierData: cloneValue(in.VD), CommonCircuitData: in.Common, PublicInputs: packed()}
	}
	return &verifier.VerifierCircuit{Proof: cloneValue(in.Proof.Proof), PublicInputs: cloneValue(in.Proof.PublicInputs), VerifierData: cloneValue(in.VD), CommonCircuitData: in.Common},
		&verifier.VerifierCircuit{Proof: cloneValue(in.Proof.Proof), PublicInputs: cloneValue(in.Proof.PublicInputs), VerifierData: cloneValue(in.VD), CommonCircuitData: in.Common}
}

// engineAccepts evaluates the honest (altered) assignment on the circuit built from the altered template.
func engineAccepts(in *instance, wr string) (bool, string) {
	clearHooks()
	old, had := os.LookupEnv("USE_BIT_DECOMPOSITION_RANGE_CHECK")
	os.Setenv("USE_BIT_DECOMPOSITION_RANGE_CHECK", "true")
	defer func() {
		if had {
			os.Setenv("USE_BIT_DECOMPOSITION_RANGE_CHECK", old)
		} else {
			os.Unsetenv("USE_BIT_DECOMPOSITION_RANGE_CHECK")
		}
	}()
	c, w := buildCircuits(in, wr)
	var err error
	pm := catchPanic(func() { quiet(func() { err = test.IsSolved(c, w, R) }) })
	if pm != "" {
		return false, "panic: " + short(pm, 160)
	}
	if err != nil {
		return false, short(err.Error(), 160)
	}
	return true, ""
}

func c20Mutations(in *instance, thorough bool) []shapeMut {
	var paths []string
	h := struct {
		Proof any
		VD    any
	}{in.Proof, in.VD}
	_ = h
	listPaths(reflect.ValueOf(in.Proof), ".Proof", &paths, false)
	listPaths(reflect.ValueOf(in.VD), ".VD", &paths, false)
	sort.Strings(paths)
	var ms []shapeMut
	for _, p := range paths {
		for _, op := range []string{"dropfirst", "droplast", "duplast", "appendzero", "empty"} {
			ms = append(ms, shapeMut{Path: p, Op: op})
		}
	}
	// single-copy alterations only where the verifier reads both copies of a field (the number of query
	// rounds: the transcript samples config.fri_config's many indices, the shape checks use
	// fri_params.config's; degree bits: the PLONK check and the FRI check). config.fri_config's cap height,
	// rate bits and proof-of-work bits are not read at all (fri_params.config's are), so altering only
	// those changes nothing the verifier sees and is not a configuration change in the property's sense.
	for _, f := range []string{"NumQueryRounds(config.fri_config only)", "NumQueryRounds(fri_params.config only)", "DegreeBits(fri_params only)", "DegreeBits(common only)",
		"NumQueryRounds", "CapHeight", "RateBits", "DegreeBits", "ArityBitsLast", "NumChallenges", "NumPartialProducts", "QuotientDegreeFactor", "NumWires", "NumRoutedWires", "NumConstants"} {
		ms = append(ms, shapeMut{Op: "cfg:" + f + ":+1"}, shapeMut{Op: "cfg:" + f + ":-1"})
	}
	ms = append(ms, shapeMut{Op: "cfg:ArityBitsDrop:0"}, shapeMut{Op: "cfg:ArityBitsAdd:0"})
	return ms
}

func c20Walk(r *Run) {
	r.Functions = append(r.Functions, "verifier.(*VerifierCircuit).Define", "verifier.(*CircuitFixed).Define", "verifier.(*VerifierChip).Verify and everything below it (real code on the symbolic API)")
	names := []string{"test_circuit"}
	k := 1
	if r.Thorough() {
		names = append(names, "random/CGZPhFRkL3NvmGaXWBc6N7qJD519EUe6vyNpaEyDe2Ev", "epoch/CbAHBGJ8VQot2m6KhH9PLasMgcDtkPJBfp9bjAEMJ8UK")
		k = 2
	}
	explore := os.Getenv("VERIF_C20_EXPLORE") != ""
	total := map[string]int{}
	nAlt := 0
	for _, nm := range names {
		base := loadInstance(r.Repo, nm)
		in := base.restrict(k)
		for _, wr := range []string{"verifier", "fixed"} {
			if wr == "fixed" && len(in.RawPis) != 16 {
				continue
			}
			ms := c20Mutations(in, r.Thorough())
			kinds := map[string]int{}
			for _, m := range ms {
				if o := os.Getenv("VERIF_ONLY"); o != "" && !strings.Contains(m.Op+" "+m.Path, o) {
					continue
				}
				// the fixed wrapper differs from the plain one in the public-input handling only: quick tier
				// repeats only the alterations that touch it
				if wr == "fixed" && !r.Thorough() && !strings.Contains(m.Path, "PublicInputs") && !strings.HasPrefix(m.Op, "cfg:") {
					continue
				}
				if r.overTime() {
					r.Infra("time budget used up before all shape alterations were executed")
					return
				}
				nAlt++
				out := c20One(r, in, wr, m, true)
				kinds[out]++
				total[out]++
				if explore {
					fmt.Printf("  %-9s %-12s %-70s %s\n", wr, m.Op, m.Path, out)
				}
			}
			r.Sample(map[string]any{"instance": in.Name, "wrapper": wr, "alterations": len(ms), "outcomes": kinds})
		}
	}
	r.Extra["shape_alterations_executed"] = nAlt
	r.Extra["shape_alteration_outcomes"] = total
	r.Bounds["shape alterations"] = fmt.Sprintf("every list of the proof / verifier-data structure (inside repeated elements: first and last element) x {drop first, drop last, duplicate last, append zero, empty}, and configuration fields +-1, on %v restricted to %d query round(s); quick: the fixed wrapper only for public-input and configuration alterations", names, k)
	r.Notes = append(r.Notes, "observation outside the property's list of prescribed shapes: common_data.num_public_inputs is not compared with the number of public inputs of the proof (plonky2 does compare); the public-input hash binds all inputs that are present, so this was not counted as a violation")
}

// c20One executes one alteration; returns the outcome class. With report, an accepted altered proof
// is recorded as a violation.
func c20One(r *Run, in *instance, wr string, m shapeMut, report bool) string {
	mi, err := mutateInstance(in, m)
	if err != nil {
		return "not applicable (" + err.Error() + ")"
	}
	w := walkVerifier(mi, walkOpts{Wrapper: wr, Cap: capPlain, Field: true, PermGL: true, PermBN: true, NoShape: true})
	switch {
	case w.Panic != "":
		return "refused at definition time (panic)"
	case w.Err != nil:
		return "refused at definition time (error)"
	}
	acc, _ := engineAccepts(mi, wr)
	if acc {
		if report {
			site := "shape alteration accepted: " + m.Op + " " + idxRe.ReplaceAllString(m.Path, "[i]")
			r.addViolationWithReplay(site, fmt.Sprintf("%s/%s: the template with %s %s (a shape the common circuit data does not prescribe) is accepted by Define, and the correspondingly altered valid proof verifies", in.Name, wr, m.Op, m.Path),
				map[string]any{"kind": "shape", "instance": in.Base, "k": in.K, "wrapper": wr, "op": m.Op, "path": m.Path}, "real Define + gnark test engine accept the altered proof")
		}
		return "ACCEPTED"
	}
	if report {
		// the circuit built from the altered template still performs every prescribed check
		c01One(r, mi, wr)
		r.Discharge()
	}
	return "defined; altered proof rejected, wiring complete"
}

func init() {
	replayKinds["shape"] = func(prop, path string, raw json.RawMessage, repo string) int {
		var c struct {
			Instance string `json:"instance"`
			K        int    `json:"k"`
			Wrapper  string `json:"wrapper"`
			Op       string `json:"op"`
			Path     string `json:"path"`
		}
		json.Unmarshal(raw, &c)
		in := loadInstance(repo, c.Instance)
		if c.K > 0 {
			in = in.restrict(c.K)
		}
		out := c20One(nil, in, c.Wrapper, shapeMut{Path: c.Path, Op: c.Op}, false)
		fmt.Printf("replay %s: %s %s on %s/%s -> %s\n", prop, c.Op, c.Path, in.Name, c.Wrapper, out)
		if out == "ACCEPTED" {
			fmt.Printf("VIOLATION property=%s replay=%s\n", prop, path)
			return 1
		}
		fmt.Println("not reproduced on the current tree")
		return 0
	}
}
