package main

import (
	"fmt"
	"sort"
	"strings"

	gl "github.com/wormhole-foundation/example-near-light-client/goldilocks"

	"verif/engine/sym"
)

func init() { drivers["C02"] = runC02 }

// optimalWidthR1CS re-computes gnark's cost model for the commit range checker (number of R1CS
// constraints as a function of the limb width) for a multiset of checked widths.
func optimalWidth(widths map[int]int, plonk bool) int {
	best, bestW := int(^uint(0)>>1), 0
	for w := 2; w < 18; w++ {
		dec := 0
		n := 0
		for bits, cnt := range widths {
			dec += cnt * ((bits + w - 1) / w)
			n += cnt
		}
		cost := (1 << w) + dec + n + 1
		if plonk {
			cost = 3*(1<<w) + 3*dec + dec + 1
		}
		if cost < best {
			best, bestW = cost, w
		}
	}
	return bestW
}

var misalignedSeen = map[string]bool{}

func runC02(r *Run) {
	misalignedSeen = map[string]bool{}
	r.Functions = []string{"verifier.(*VerifierCircuit).Define", "verifier.(*CircuitFixed).Define", "goldilocks.New / gnarkRangeCheckerSelector", "goldilocks.(*Chip).{Reduce,ReduceWithMaxBits,MulAdd,RangeCheck,Inverse} (honest-fit direction)", "goldilocks.(*Chip).checkCollected / getOptimalBasewidth", "goldilocks.{MulAddHint,ReduceHint,InverseHint,SplitLimbsHint} (executed on the honest values)"}
	insts := instancesFor(r, []int{1, 2}, []int{1, 2, 4, 28}, true)
	widthsInUse := map[uint64]bool{}
	rangeWidths := map[int]bool{}
	type accRow struct {
		Instance, Wrapper, Config string
		Constraints, Violated     int
		Note                      string
	}
	var rows []accRow
	for _, in := range insts {
		for _, wr := range []string{"verifier", "fixed"} {
			if wr == "fixed" && len(in.RawPis) != 16 {
				continue
			}
			// ---- (a) honest values always fit: operand bounds at every site (solver) -----------------
			w := walkVerifier(in, walkOpts{Wrapper: wr, Cap: capPlain, Field: true, PermBN: true, PIBits: 64})
			if w.Panic != "" || w.Err != nil {
				r.Infra("walk %s/%s failed: %s %v", in.Name, wr, w.Panic, w.Err)
				continue
			}
			vcObligations(r, w, in.Name+"/"+wr)
			collected := map[int]int{}
			for _, s := range w.F.sites {
				switch {
				case strings.HasPrefix(s.Kind, "Reduce/"):
					widthsInUse[s.N] = true
					collected[int(s.N)] += s.Count
					collected[32] += 2 * s.Count
				case s.Kind == "MulAdd":
					collected[32] += 4 * s.Count
				case s.Kind == "RangeCheck", s.Kind == "Inverse":
					collected[32] += 2 * s.Count
				case strings.HasPrefix(s.Kind, "RangeN/"):
					collected[int(s.N)] += s.Count
				}
			}
			for b := range collected {
				rangeWidths[b] = true
			}
			// commit configuration: the chip refuses to define the circuit unless the cost-optimal limb width is 16
			ow, owp := optimalWidth(collected, false), optimalWidth(collected, true)
			misaligned := []int{}
			for b := range collected {
				if b%16 != 0 {
					misaligned = append(misaligned, b)
				}
			}
			sort.Ints(misaligned)
			note := fmt.Sprintf("commit checker: cost-optimal limb width %d (R1CS model) / %d (PLONK model); widths not aligned to 16: %v", ow, owp, misaligned)
			if len(misaligned) > 0 {
				// the commit-based checker refuses widths that are not multiples of its 16-bit limb: confirm on
				// the real circuit (full proof: restricted shapes are refused for their limb width anyway)
				site := fmt.Sprintf("range-check width not aligned to the commit checker's limb (%s wrapper)", wr)
				if !misalignedSeen[site] {
					misalignedSeen[site] = true
					cr := &circuitReplay{Kind: "circuit", Wrapper: wr, Instance: in.Base, K: 0, Expect: "rejected", Commit: true}
					acc, msg := runCircuitReplay(cr, r.Repo)
					if !acc && strings.Contains(msg, "aligned") {
						r.addViolationWithReplay(site, fmt.Sprintf("%s/%s: range-check widths %v are not multiples of 16; the circuit built with the commitment-based range checker refuses the valid proof (%s)", in.Name, wr, misaligned, short(msg, 80)), toMap(cr), "real circuit (test.IsSolved, commitment-based checker) rejects the unmodified valid proof")
					} else {
						r.Infra("%s/%s: range-check widths %v are not multiples of 16, but the real circuit under the commit checker says accepted=%v %s", in.Name, wr, misaligned, acc, short(msg, 80))
					}
				}
			}
			if ow != 16 {
				if in.K == 0 {
					r.Infra("%s/%s: the cost-optimal limb width under the commit checker is %d, not 16: Define panics in that configuration", in.Name, wr, ow)
				} else {
					r.Note("%s/%s: restricted to %d query rounds the commit checker's optimal width is %d (Define refuses the circuit there; the unrestricted shapes reach 16)", in.Name, wr, in.K, ow)
				}
			}
			r.Discharge()
			// ---- (b) the honest assignment satisfies the constraints in every configuration --------
			type cfgT struct {
				name  string
				cap   capKind
				env   bool
				field bool
			}
			cfgs := []cfgT{{"native (flat, real hints)", capNative, false, false}, {"bit-decomposition (field mode: leaf gadgets by their contracts)", capPlain, true, true}}
			if !r.Thorough() && in.K != 1 {
				cfgs = cfgs[1:] // quick: the flat evaluation with real hint functions only for the k=1 prefixes
			}
			if ow == 16 && r.Thorough() {
				cfgs = append(cfgs, cfgT{"commit (flat, real hints, lookup argument idealised)", capCommit, false, false})
			}
			for _, cf := range cfgs {
				opts := walkOpts{Wrapper: wr, Cap: cf.cap, Env: cf.env, Field: cf.field, Pin: true, NoShape: true}
				var extra func(e *sym.Ctx)
				_ = extra
				if cf.cap == capCommit {
					opts.Extra = map[string]hookFn{}
				}
				ws := walkVerifierWith(in, opts, func(e *sym.Ctx) {
					if cf.cap == capCommit {
						installLookupSummary(e)
					}
				})
				row := accRow{Instance: in.Name, Wrapper: wr, Config: cf.name, Note: note}
				if ws.Panic != "" || ws.Err != nil {
					row.Note = "Define failed: " + short(ws.Panic, 200) + fmt.Sprint(ws.Err)
					rows = append(rows, row)
					what := fmt.Sprintf("%s wrapper, %s, configuration %s: Define fails on the honest proof: %s %v", wr, in.Name, cf.name, short(ws.Panic, 200), ws.Err)
					if cf.cap == capNative {
						// the test engine has no native range checker: confirm on a real builder that offers one
						g := &gadgetReplay{Kind: "gadget", Gadget: "RangeCheck", Cfg: "native-r1cs", In: []string{"1"}, Expect: "rejected"}
						if acc, rmsg := runGadgetReplay(g); !acc && strings.Contains(rmsg, "compile") {
							r.addViolationWithReplay("circuit not definable under the native range checker", what, toMap(g), "real R1CS builder offering a native range checker: "+short(rmsg, 120))
						} else {
							r.Infra("%s -- but a range check compiles and accepts under the real native builder (accepted=%v %s)", what, acc, short(rmsg, 60))
						}
						continue
					}
					r.addViolationDirect("valid proof rejected / circuit not definable", what, in, wr)
					continue
				}
				bad := 0
				var first string
				for _, c := range ws.E.Cons {
					ok, known := c.HoldsOnShadow()
					if known && !ok {
						bad++
						if first == "" {
							first = c.Site
						}
					}
				}
				row.Constraints, row.Violated = len(ws.E.Cons), bad
				rows = append(rows, row)
				if bad > 0 {
					r.addViolationDirect("valid proof rejected", fmt.Sprintf("%s wrapper, %s, configuration %s: %d constraints are violated by the honest assignment (first at %s)", wr, in.Name, cf.name, bad, firstFrame(first)), in, wr)
				}
			}
		}
	}
	for i, rw := range rows {
		if i < 8 {
			r.Sample(rw)
		}
	}
	r.Extra["honest_evaluations"] = len(rows)
	// ---- (c) leaf lemmas, completeness direction, for every width in use ---------------------------
	for n := range widthsInUse {
		lf := reduceLeaf(n, false)
		lf.sound = false
		gadgetLemma(r, "honest-fit", lf)
	}
	for _, lf := range []leaf{mulAddLeaves()[0], inverseLeaf()} {
		lf.sound = false
		gadgetLemma(r, "honest-fit", lf)
	}
	var rws []int
	for b := range rangeWidths {
		rws = append(rws, b)
	}
	sort.Ints(rws)
	for _, cfg := range []rcConfig{{capPlain, false, ""}, {capNative, false, ""}, {capCommit, false, ""}} {
		kind := ""
		func() {
			api := cfg.newAPI()
			defer forgetChips()
			kind = actualKind(newChip(api))
		}()
		var items []rangeItem
		chain := map[int]bool{}
		for _, n := range rws {
			step := 1
			if kind == "commit" {
				step = 16
			}
			for m := n; m > 0; m -= step {
				chain[m] = true
			}
		}
		var ns []int
		for n := range chain {
			ns = append(ns, n)
		}
		sort.Ints(ns)
		for _, n := range ns {
			n := n
			if kind == "commit" && n%16 != 0 {
				continue
			}
			it := rangeItem{name: fmt.Sprintf("rangeN[%s,n=%d]", cfg, n), bound: pow2(n), gadget: "RangeN", n: n, body: func(chip *gl.Chip, x gl.Variable) { chip.RangeCheckWithMaxBits(x, uint64(n)) }}
			switch kind {
			case "native":
				it.compl = "direct"
			case "bitdecomp":
				it.compl, it.step = "step", 1
				if n <= 4 {
					it.compl = "direct"
				}
			case "commit":
				it.compl, it.step = "step", 16
				if n <= 32 {
					it.compl = "direct"
				}
			}
			items = append(items, it)
		}
		rangeLemmas(r, cfg, items)
		r.Discharge()
	}
	setHooks(factHooksL0)
	rangeLemmas(r, rcConfig{capPlain, false, ""}, []rangeItem{{name: "rangeGL[layered]", bound: P, gadget: "RangeCheck", compl: "direct", body: func(chip *gl.Chip, x gl.Variable) { chip.RangeCheck(x) }}})
	clearHooks()
	r.Extra["range_widths_in_use"] = rws
	r.Bounds["instances"] = "quick: test_circuit and the 97-input circuit, k in {1,2}; thorough: all five proofs, k in {1,2,4,28}; VerifierCircuit and CircuitFixed"
	r.Bounds["configurations"] = "native range checker, bit decomposition, commit checker (when the chip accepts the shape)"
	r.Assumptions = append(r.Assumptions,
		"'honestly generated' = the five proofs in the repository and their query-round prefixes; that the circuit's acceptance condition is plonky2's is C01/C11-C16",
		"honest-fit is decided by the solver for ALL values (operand-bound VCs per site shape, completeness direction of the leaf lemmas); the evaluation of the honest proofs on the symbolic API (hint functions executed for real) is a concrete cross-check and translator validation",
		"public inputs below 2^64")
	r.Outside = append(r.Outside, "Groth16/PLONK proving itself", "k-restricted shapes under the commit checker when its cost model does not choose 16-bit limbs (the chip refuses those at definition time; reported per shape)")
}
