package main

import (
	"encoding/json"
	"fmt"
	"reflect"
	"unsafe"
)

func jsonMarshal(v any) ([]byte, error)   { return json.Marshal(v) }
func jsonUnmarshal(b []byte, v any) error { return json.Unmarshal(b, v) }

// fieldOf gives access to an unexported struct field of *ptr.
func fieldOf[T any](ptr any, name string) *T {
	v := reflect.ValueOf(ptr).Elem()
	f := v.FieldByName(name)
	if !f.IsValid() {
		panic(fmt.Sprintf("field %s no longer exists in %T", name, ptr))
	}
	if f.Type() != reflect.TypeOf(*new(T)) {
		panic(fmt.Sprintf("field %s of %T has type %s, harness expects %T", name, ptr, f.Type(), *new(T)))
	}
	return (*T)(unsafe.Pointer(f.UnsafeAddr()))
}

// catchPanic runs f and returns the panic message ("" if none).
func catchPanic(f func()) (msg string) {
	defer func() {
		if e := recover(); e != nil {
			msg = fmt.Sprint(e)
			if msg == "" {
				msg = "panic"
			}
		}
	}()
	f()
	return ""
}
