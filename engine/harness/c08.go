package main

import (
	"fmt"
	"github.com/consensys/gnark/backend/witness"
	"github.com/consensys/gnark/constraint"
	"github.com/consensys/gnark/frontend/cs/r1cs"
	"math/big"
	"os"
	"strings"
	"time"

	"github.com/consensys/gnark-crypto/field/goldilocks"
	"github.com/consensys/gnark/frontend"
	"github.com/consensys/gnark/test"
	gl "github.com/wormhole-foundation/example-near-light-client/goldilocks"

	"verif/engine/ref"
	"verif/engine/smt"
	"verif/engine/sym"
)

func init() { drivers["C08"] = runC08 }

// fieldCase is one function-level equivalence harness in field mode.
type fieldCase struct {
	name  string
	bound string
	// build runs the real code on canonical input atoms and the reference on the same atoms;
	// returns implementation output terms and reference output nodes (same order)
	build func(fc *fctx) ([]frontend.Variable, []*ref.N)
	// bigMod: identities over the BN254 scalar field (no Goldilocks lifting); termCuts: cut points
	// at the non-linear nodes of a hook-free DAG instead of at hooked atoms
	bigMod   bool
	termCuts bool
	// acceptReplay, if set, replays a disagreement as accept/reject decisions of the real code on
	// concrete data; it returns a description of the reproduced disagreement or ""
	acceptReplay func() string
	// alias: run on the symbolic API in alias mode (compound results are accumulators that MulAcc
	// extends in place, as gnark's builders are allowed to)
	alias bool
	// unhook: leaf gadgets whose real body is executed in this case although field mode normally
	// replaces them by their contract
	unhook []string
}

type fctx struct {
	api  frontend.API
	e    *sym.Ctx
	chip *gl.Chip
	rb   *ref.B
	w    *fieldRun
	n    int
	// replay mode: inputs are the variables of a real gnark circuit, consumed in creation order
	replay  bool
	rin     []frontend.Variable
	rnames  []string
	rhi     []*big.Int
	rhandle map[string]*replayHandle
}

type replayHandle struct{ name string }

func (f *fctx) input(name, kind string, hi *big.Int) (frontend.Variable, *ref.N) {
	if f.replay {
		i := len(f.rnames)
		f.rnames = append(f.rnames, name)
		f.rhi = append(f.rhi, hi)
		h := &replayHandle{name}
		f.rhandle[name] = h
		var v frontend.Variable
		if i < len(f.rin) {
			v = f.rin[i]
		}
		n := f.rb.Var(h, name)
		if hi.Cmp(sym.Pm1) > 0 {
			n = f.rb.VarR(h, name)
		}
		return v, n
	}
	a := f.e.NamedAtom(name, kind, hi)
	if hi.Cmp(sym.Pm1) > 0 {
		return a, f.rb.VarR(a, name)
	}
	return a, f.rb.Var(a, name)
}

func (f *fctx) glIn(name string) (gl.Variable, *ref.N) {
	v, n := f.input(name, "input", sym.Pm1)
	return gl.NewVariable(v), n
}
func (f *fctx) bitIn(name string) (frontend.Variable, *ref.N) {
	return f.input(name, "bit", big.NewInt(1))
}
func (f *fctx) bnIn(name string) (frontend.Variable, *ref.N) {
	return f.input(name, "input", sym.Rm1)
}
func (f *fctx) qeIn(name string) (gl.QuadraticExtensionVariable, ref.E) {
	a, ra := f.glIn(name + "_0")
	b, rb := f.glIn(name + "_1")
	return gl.QuadraticExtensionVariable{a, b}, ref.E{ra, rb}
}
func (f *fctx) algIn(name string) (gl.QuadraticExtensionAlgebraVariable, ref.A) {
	a, ra := f.qeIn(name + "_a")
	b, rb := f.qeIn(name + "_b")
	return gl.QuadraticExtensionAlgebraVariable{a, b}, ref.A{ra, rb}
}
func (f *fctx) T(v frontend.Variable) frontend.Variable { return v }
func (f *fctx) qeT(v gl.QuadraticExtensionVariable) []frontend.Variable {
	return []frontend.Variable{v[0].Limb, v[1].Limb}
}
func (f *fctx) algT(v gl.QuadraticExtensionAlgebraVariable) []frontend.Variable {
	return append(f.qeT(v[0]), f.qeT(v[1])...)
}
func eN(x ref.E) []*ref.N { return []*ref.N{x[0], x[1]} }
func aN(x ref.A) []*ref.N { return []*ref.N{x[0][0], x[0][1], x[1][0], x[1][1]} }

// runFieldCase executes one case and adds its obligations. replayFn, if given, is used to confirm
// a functional disagreement on the real code.
func runFieldCase(r *Run, family string, c fieldCase, extraHooks map[string]hookFn) *eqCheck {
	if only := os.Getenv("VERIF_ONLY"); only != "" && !strings.Contains(c.name, only) {
		return nil
	}
	hooks := fieldHooks()
	for k, v := range extraHooks {
		hooks[k] = v
	}
	for _, k := range c.unhook {
		delete(hooks, k)
	}
	setHooks(hooks)
	defer clearHooks()
	api := newAPI(capPlain)
	e := cur
	e.AliasMode = c.alias
	defer forgetChips()
	w := newFieldRun(e)
	fc := &fctx{api: api, e: e, chip: newChip(api), rb: ref.NewB(), w: w}
	var outs []*sym.Term
	var refs []*ref.N
	if msg := catchPanic(func() {
		ov, rs := c.build(fc)
		refs = rs
		for _, v := range ov {
			outs = append(outs, e.K(v))
		}
	}); msg != "" {
		// does the real code refuse this (valid) configuration as well?
		names, his, _, _, _ := engineInputsSafe(c, extraHooks)
		env := map[string]*big.Int{}
		for i, n := range names {
			env[n] = new(big.Int).Mod(big.NewInt(int64(7+i)), new(big.Int).Add(his[i], big.NewInt(1)))
		}
		head := msg
		if len(head) > 40 {
			head = head[:40]
		}
		// (gnark's test engine turns a panic inside Define into an error that carries its text)
		if ok, emsg := runCaseOnEngine(c, nil, names, env); !ok && (strings.Contains(emsg, "panic") || strings.Contains(emsg, head)) {
			r.mu.Lock()
			r.done = append(r.done, obResult{ob: &Ob{Name: c.name + "/definable", Family: family, Site: c.name}, res: smt.Result{Status: "concrete", Solver: "-"}, status: "violation",
				viol: &Violation{Site: c.name, What: c.name + ": the real code panics for this (valid) parameterisation: " + short(msg, 160), Replay: map[string]any{"kind": "functional", "family": family, "case": c.name}, Outcome: "gnark test engine on the real code: " + short(emsg, 160)}})
			r.mu.Unlock()
			return nil
		}
		r.Infra("%s: panicked on the symbolic API: %s", c.name, short(msg, 300))
		return nil
	}
	if len(outs) != len(refs) {
		// the number of results (constraints of a gate, accepted equalities, hash outputs) is itself part of
		// the specification; confirm the count on the real engine before reporting
		names, _, _, _, ee := engineInputs(c, extraHooks)
		env := map[string]*big.Int{}
		for i, n := range names {
			env[n] = big.NewInt(int64(i + 2))
		}
		nReal := -1
		if ee == "" {
			id0 := len(caseReg) + 1
			runCaseOnEngine(c, extraHooks, names, env)
			if ent := caseReg[id0]; ent != nil {
				nReal = ent.nOuts
			}
		}
		if c.acceptReplay != nil {
			// acceptance-style case: the results are the asserted equalities; decide on the real code
			if m := c.acceptReplay(); m != "" {
				r.addViolationWithReplay(c.name, fmt.Sprintf("%s: the real code asserts %d coordinate equalities, the specification has %d; %s", c.name, len(outs)/2, len(refs)/2, m), map[string]any{"kind": "functional", "family": family, "case": c.name}, "gnark test engine on the real code")
			} else {
				r.Infra("%s: the real code asserts %d coordinate equalities, the specification has %d, but the accept/reject replay shows no disagreement", c.name, len(outs)/2, len(refs)/2)
			}
			return nil
		}
		if nReal >= 0 && nReal != len(refs) {
			r.addViolationWithReplay(c.name, fmt.Sprintf("%s: the real code produces %d result values, the specification %d", c.name, nReal, len(refs)), map[string]any{"kind": "functional", "family": family, "case": c.name}, "gnark test engine on the real code")
		} else {
			r.Infra("%s: implementation returns %d values, reference %d (real engine: %d)", c.name, len(outs), len(refs), nReal)
		}
		return nil
	}
	q := newEqCheck(r, c.name, family, e, fc.rb)
	q.bound = c.bound
	q.bigMod = c.bigMod
	if c.termCuts {
		q.sweepTerms(outs)
	} else {
		q.sweepDefs(w.defs)
	}
	for i := range outs {
		ok, diff := q.output(fmt.Sprint(i), outs[i], refs[i])
		if ok {
			continue
		}
		if diff >= 0 {
			// the two sides differ at a sample point: let the solver confirm on the exact
			// (contract-level) encoding with the inputs pinned, then report
			em := sym.NewEmitter()
			em.DefMode = true
			em.ModWrap = true
			dr0 := diff
			em.Pin = func(a *sym.Term) *big.Int { return q.envVal(dr0, a) }
			on := em.Ref(outs[i])
			em.Raw("(declare-const pinned_point Bool)")
			var pins []string
			for _, a := range em.AtomsSeen {
				pins = append(pins, fmt.Sprintf("%s=%s", a.Name, q.envVal(diff, a)))
			}
			want := q.refEval(diff, refs[i])
			if c.bigMod {
				em.Assert(fmt.Sprintf("(not (= %s %s))", on, want))
			} else {
				em.Assert(fmt.Sprintf("(not (= (mod %s %s) %s))", on, P, want))
			}
			name, idx := c.name, i
			got := new(big.Int).Mod(q.implEval(diff, outs[i]), P)
			cc, dr := c, diff
			r.Add(&Ob{Name: fmt.Sprintf("%s/out%d-differs", c.name, i), Family: family, Script: em.String(), Site: c.name, Fallback: []string{"cvc5", "z3-new"}, TO: 25 * time.Second, Bound: "inputs pinned to a sample point where implementation and reference disagree",
				OnFail: func(res smt.Result) *Violation {
					// replay on the real code: gnark's test engine evaluates the unhooked function on
					// these inputs with every output asserted equal to the reference's value
					vals := func(name string, hi *big.Int) *big.Int {
						return q.envVal(dr, &sym.Term{Name: name, Hi: hi})
					}
					if cc.alias && cc.acceptReplay == nil {
						// alias mode is the worst case the API contract allows; whether gnark's R1CS builder
						// really extends the accumulator in place here is decided on the compiled circuit
						if m := sharedOperandReplay(cc, r); m != "" {
							return &Violation{What: name + ": " + m, Replay: map[string]any{"kind": "functional", "family": family, "case": name}, Outcome: "circuit compiled with gnark's R1CS builder, honest inputs, reference outputs"}
						}
						return &Violation{Site: "benign:alias-not-exhibited", What: "in alias mode (every accumulator handed to api.MulAcc is extended in place) the result differs from the reference, but the circuit compiled with gnark's R1CS builder computes the reference's results: a latent dependence on the builder not reusing the storage, not a disagreement"}
					}
					if cc.acceptReplay != nil {
						if m := cc.acceptReplay(); m != "" {
							return &Violation{What: name + ": " + m, Replay: map[string]any{"kind": "functional", "family": family, "case": name}, Outcome: "gnark test engine on the real code, concrete data built with the native reference"}
						}
						r.Note("%s: accept/reject replay on the real code shows no disagreement", name)
						return nil
					}
					ok, msg := replayFieldCase(cc, extraHooks, vals)
					if ok {
						r.Note("%s: real code agrees with the reference at the sample point (%s)", name, msg)
						return nil
					}
					return &Violation{What: fmt.Sprintf("%s: output %d is %s, the reference gives %s, at %s", name, idx, got, want, short(strings.Join(pins, " "), 400)), Replay: map[string]any{"kind": "functional", "family": family, "case": name, "output": idx, "inputs": pins, "impl": got.String(), "reference": want.String()}, Outcome: "gnark test engine on the real (unhooked) code: " + short(msg, 200)}
				}})
		} else {
			// neither a proof nor a differing sample: ask the solver directly on the exact encodings
			script, seen := q.directQuery(outs[i], refs[i])
			if len(script) > 400000 {
				r.Infra("%s: output %d agrees with the reference at all sample points but no polynomial identity was found (too large for a direct query)", c.name, i)
				continue
			}
			cc, idx := c, i
			r.Add(&Ob{Name: fmt.Sprintf("%s/out%d-direct", c.name, i), Family: family, Script: script, Values: sym.SortedAtomNames(seen), Site: c.name, Fallback: []string{"cvc5", "z3-new"}, Bound: "all inputs (exact contract-level encoding of implementation and reference)",
				OnFail: func(res smt.Result) *Violation {
					vals := func(name string, hi *big.Int) *big.Int {
						if v, ok := res.Model[name]; ok {
							return v
						}
						return big.NewInt(0)
					}
					ok, msg := replayFieldCase(cc, extraHooks, vals)
					if ok {
						r.Note("%s: solver model for output %d does not reproduce on the real code (%s)", cc.name, idx, msg)
						return nil
					}
					var pins []string
					for k, v := range res.Model {
						pins = append(pins, fmt.Sprintf("%s=%s", k, v))
					}
					return &Violation{What: fmt.Sprintf("%s: output %d differs from the reference at %s", cc.name, idx, short(strings.Join(pins, " "), 300)), Replay: map[string]any{"kind": "functional", "family": family, "case": cc.name, "output": idx, "inputs": pins}, Outcome: "gnark test engine on the real (unhooked) code: " + short(msg, 200)}
				}})
		}
	}
	vcObligationsFR(r, w, c.name)
	for f, n := range w.flags {
		r.Note("%s: %dx %s", c.name, n, f)
	}
	return q
}

// caseCircuit runs a fieldCase on a real gnark engine: inputs are circuit variables, outputs are
// asserted equal to the reference values.
type caseCircuit struct {
	ID int `gnark:"-"` // index into caseReg (gnark clones circuits with reflect.DeepEqual: no funcs in here)
	In []frontend.Variable
}

// zeroDivCircuit: InverseExtension / DivExtension with the divisor as input.
type zeroDivCircuit struct {
	Fn   string `gnark:"-"`
	A, B [2]frontend.Variable
}

func (c *zeroDivCircuit) Define(api frontend.API) error {
	chip := gl.New(api)
	a := gl.QuadraticExtensionVariable{gl.NewVariable(c.A[0]), gl.NewVariable(c.A[1])}
	b := gl.QuadraticExtensionVariable{gl.NewVariable(c.B[0]), gl.NewVariable(c.B[1])}
	if c.Fn == "InverseExtension" {
		o, _ := chip.InverseExtension(a)
		api.AssertIsEqual(o[0].Limb, o[0].Limb)
		api.AssertIsEqual(b[0].Limb, b[0].Limb)
		api.AssertIsEqual(b[1].Limb, b[1].Limb)
	} else {
		o, _ := chip.DivExtension(b, a)
		api.AssertIsEqual(o[0].Limb, o[0].Limb)
	}
	return nil
}

type caseEntry struct {
	c     fieldCase
	want  []*big.Int
	nOuts int
}

var caseReg = map[int]*caseEntry{}

// constants for replays in which the reference has to compute real hashes
var concreteGL *ref.GLConsts
var concreteBN *ref.BN128Consts

func (cc *caseCircuit) Define(api frontend.API) error {
	ent := caseReg[cc.ID]
	fc := &fctx{api: api, chip: gl.New(api), rb: ref.NewB(), replay: true, rin: cc.In, rhandle: map[string]*replayHandle{}}
	outs, _ := ent.c.build(fc)
	ent.nOuts = len(outs)
	for i := range outs {
		if i < len(ent.want) {
			api.AssertIsEqual(outs[i], ent.want[i])
		} else {
			api.AssertIsEqual(outs[i], outs[i]) // every result must at least be a usable value
		}
	}
	return nil
}

// replayFieldCase evaluates the case on the real code with gnark's test engine. vals gives the
// value of the input with the given name. Returns true when the real code agrees with the reference.
func replayFieldCase(c fieldCase, extraHooks map[string]hookFn, vals func(name string, hi *big.Int) *big.Int) (bool, string) {
	clearHooks()
	old, had := os.LookupEnv("USE_BIT_DECOMPOSITION_RANGE_CHECK")
	os.Setenv("USE_BIT_DECOMPOSITION_RANGE_CHECK", "true")
	defer func() {
		if had {
			os.Setenv("USE_BIT_DECOMPOSITION_RANGE_CHECK", old)
		} else {
			os.Unsetenv("USE_BIT_DECOMPOSITION_RANGE_CHECK")
		}
	}()
	// dry run to learn the inputs and build the reference
	dry := &fctx{rb: ref.NewB(), replay: true, rhandle: map[string]*replayHandle{}}
	var refs []*ref.N
	msg := catchPanic(func() {
		api := newAPI(capPlain)
		dry.api = api
		dry.chip = newChip(api)
		dry.rin = nil
		// inputs are nil variables in the dry run: use symbolic atoms instead
		dry.replay = false
		dry.e = cur
		_, refs = c.build(dry)
	})
	forgetChips()
	if msg != "" {
		return true, "dry run panicked: " + msg
	}
	// names / ranges in creation order
	var names []string
	var his []*big.Int
	for _, a := range dry.e.Atoms {
		if a.Kind == "input" || a.Kind == "bit" {
			if _, isIn := dry.rb.VarOf(a); isIn {
				names = append(names, a.Name)
				his = append(his, a.Hi)
			}
		}
	}
	env := map[any]*big.Int{}
	in := make([]frontend.Variable, len(names))
	for i, n := range names {
		v := vals(n, his[i])
		in[i] = v
		for _, a := range dry.e.Atoms {
			if a.Name == n {
				env[a] = v
			}
		}
	}
	memo := map[*ref.N]*big.Int{}
	var want []*big.Int
	if concreteGL != nil || concreteBN != nil {
		ref.SetConcreteHashes(concreteGL, concreteBN)
		defer ref.ClearConcreteHashes()
	}
	for _, n := range refs {
		want = append(want, ref.Eval(n, func(h any) *big.Int { return env[h] }, memo))
	}
	id := len(caseReg) + 1
	caseReg[id] = &caseEntry{c: c, want: want}
	circuit := &caseCircuit{ID: id, In: make([]frontend.Variable, len(in))}
	witness := &caseCircuit{ID: id, In: in}
	var err error
	pm := catchPanic(func() { quiet(func() { err = test.IsSolved(circuit, witness, R) }) })
	forgetChips()
	if pm != "" {
		// the repository's honest hint functions refuse operands outside the field: on an input within the
		// case's declared ranges this means the real code cannot produce the prescribed result at all
		if strings.Contains(pm, "not in the field") {
			return false, "the real code cannot be evaluated on this input with honest hint values (" + short(pm, 120) + "); the specification defines a result for it"
		}
		// any other replay that cannot run reproduces nothing
		return true, "replay panicked: " + pm
	}
	if err != nil && strings.Contains(err.Error(), "not in the field") {
		return false, "the real code cannot be evaluated on this input with honest hint values (" + short(err.Error(), 120) + "); the specification defines a result for it"
	}
	if caseReg[id].nOuts == 0 {
		// the case compares acceptance conditions, not returned values: random inputs are rejected
		// by the real code regardless; such cases need (and get) their own accept/reject replay
		return true, "no returned values to compare on the real engine"
	}
	if err != nil {
		return false, err.Error()
	}
	return true, fmt.Sprintf("outputs %v", want)
}

// vcObligationsFR is vcObligations for a bare fieldRun.
func vcObligationsFR(r *Run, w *fieldRun, tag string) {
	vcObligations(r, &walkResult{F: w}, tag)
}

func runC08(r *Run) {
	r.Functions = []string{"goldilocks.(*Chip).{AddExtension,SubExtension,MulExtension,MulAddExtension,SubMulExtension,ScalarMulExtension,InnerProductExtension,InverseExtension,DivExtension,ExpExtension,ReduceExtension,ReduceWithPowers,IsZero,Lookup,Lookup2} and the NoReduce variants", "goldilocks.(*Chip).{AddExtensionAlgebra,SubExtensionAlgebra,MulExtensionAlgebra,ScalarMulExtensionAlgebra,PartialInterpolateExtAlgebra}"}
	var cases []fieldCase
	bnd := "all canonical operand values (symbolic)"
	bin := func(name string, f func(ch *gl.Chip, a, b gl.QuadraticExtensionVariable) gl.QuadraticExtensionVariable, g func(b *ref.B, x, y ref.E) ref.E) {
		cases = append(cases, fieldCase{name: name, bound: bnd, build: func(fc *fctx) ([]frontend.Variable, []*ref.N) {
			a, ra := fc.qeIn("a")
			b, rb := fc.qeIn("b")
			return fc.qeT(f(fc.chip, a, b)), eN(g(fc.rb, ra, rb))
		}})
	}
	bin("AddExtension", (*gl.Chip).AddExtension, (*ref.B).EAdd)
	bin("SubExtension", (*gl.Chip).SubExtension, (*ref.B).ESub)
	bin("MulExtension", (*gl.Chip).MulExtension, (*ref.B).EMul)
	// NoReduce variants: compared after an explicit reduction (congruence modulo p)
	red := func(f func(ch *gl.Chip, a, b gl.QuadraticExtensionVariable) gl.QuadraticExtensionVariable) func(ch *gl.Chip, a, b gl.QuadraticExtensionVariable) gl.QuadraticExtensionVariable {
		return func(ch *gl.Chip, a, b gl.QuadraticExtensionVariable) gl.QuadraticExtensionVariable {
			return ch.ReduceExtension(f(ch, a, b))
		}
	}
	bin("AddExtensionNoReduce", red((*gl.Chip).AddExtensionNoReduce), (*ref.B).EAdd)
	bin("SubExtensionNoReduce", red((*gl.Chip).SubExtensionNoReduce), (*ref.B).ESub)
	bin("MulExtensionNoReduce", red((*gl.Chip).MulExtensionNoReduce), (*ref.B).EMul)
	tri := func(name string, f func(ch *gl.Chip, a, b, c gl.QuadraticExtensionVariable) gl.QuadraticExtensionVariable, g func(b *ref.B, x, y, z ref.E) ref.E) {
		cases = append(cases, fieldCase{name: name, bound: bnd, build: func(fc *fctx) ([]frontend.Variable, []*ref.N) {
			a, ra := fc.qeIn("a")
			b, rb := fc.qeIn("b")
			c, rc := fc.qeIn("c")
			return fc.qeT(f(fc.chip, a, b, c)), eN(g(fc.rb, ra, rb, rc))
		}})
	}
	tri("MulAddExtension", (*gl.Chip).MulAddExtension, func(b *ref.B, x, y, z ref.E) ref.E { return b.EAdd(b.EMul(x, y), z) })
	tri("MulAddExtensionNoReduce", func(ch *gl.Chip, a, b, c gl.QuadraticExtensionVariable) gl.QuadraticExtensionVariable {
		return ch.ReduceExtension(ch.MulAddExtensionNoReduce(a, b, c))
	}, func(b *ref.B, x, y, z ref.E) ref.E { return b.EAdd(b.EMul(x, y), z) })
	tri("SubMulExtension", (*gl.Chip).SubMulExtension, func(b *ref.B, x, y, z ref.E) ref.E { return b.EMul(b.ESub(x, y), z) })
	cases = append(cases, fieldCase{name: "ScalarMulExtension", bound: bnd, build: func(fc *fctx) ([]frontend.Variable, []*ref.N) {
		a, ra := fc.qeIn("a")
		s, rs := fc.glIn("s")
		return fc.qeT(fc.chip.ScalarMulExtension(a, s)), eN(fc.rb.EScalar(ra, rs))
	}})
	cases = append(cases, fieldCase{name: "InverseExtension", bound: bnd + "; a != 0 (zero is rejected, see the zero-divisor obligations)", build: func(fc *fctx) ([]frontend.Variable, []*ref.N) {
		a, ra := fc.qeIn("a")
		inv, _ := fc.chip.InverseExtension(a)
		return fc.qeT(inv), eN(fc.rb.EInv(ra))
	}})
	cases = append(cases, fieldCase{name: "DivExtension", bound: bnd + "; b != 0", build: func(fc *fctx) ([]frontend.Variable, []*ref.N) {
		a, ra := fc.qeIn("a")
		b, rb := fc.qeIn("b")
		d, _ := fc.chip.DivExtension(a, b)
		return fc.qeT(d), eN(fc.rb.EDiv(ra, rb))
	}})
	cases = append(cases, fieldCase{name: "IsZero", bound: bnd, build: func(fc *fctx) ([]frontend.Variable, []*ref.N) {
		a, ra := fc.qeIn("a")
		return []frontend.Variable{fc.chip.IsZero(a)}, []*ref.N{fc.rb.EIsZero(ra)}
	}})
	cases = append(cases, fieldCase{name: "Lookup", bound: bnd + ", selector bit in {0,1}", build: func(fc *fctx) ([]frontend.Variable, []*ref.N) {
		a, ra := fc.qeIn("a")
		b, rb := fc.qeIn("b")
		s, rs := fc.bitIn("s")
		return fc.qeT(fc.chip.Lookup(s, a, b)), eN(fc.rb.EIte(rs, rb, ra))
	}})
	cases = append(cases, fieldCase{name: "Lookup2", bound: bnd + ", selector bits in {0,1}", build: func(fc *fctx) ([]frontend.Variable, []*ref.N) {
		var q [4]gl.QuadraticExtensionVariable
		var rq [4]ref.E
		for i := range q {
			q[i], rq[i] = fc.qeIn(fmt.Sprintf("q%d", i))
		}
		b0, r0 := fc.bitIn("b0")
		b1, r1 := fc.bitIn("b1")
		// index = b0 + 2*b1
		want := fc.rb.EIte(r1, fc.rb.EIte(r0, rq[3], rq[2]), fc.rb.EIte(r0, rq[1], rq[0]))
		return fc.qeT(fc.chip.Lookup2(b0, b1, q[0], q[1], q[2], q[3])), eN(want)
	}})
	// exponentiation: the exponent is a circuit-build-time constant
	exps := []uint64{0, 1, 2, 3, 4, 5, 7, 8, 15, 16, 17, 63, 64, 65, 255, 256, 258, 1 << 32, 1<<32 + 1, 1<<40 + 3, 1 << 63, ^uint64(0)} // includes exponents that need more than 32 bits
	if r.Thorough() {
		for e := uint64(0); e <= 64; e++ {
			exps = append(exps, e)
		}
		for k := uint(7); k <= 63; k += 7 {
			exps = append(exps, 1<<k, 1<<k-1, 1<<k+1)
		}
		exps = append(exps, 1<<20, 1<<20-1, 1<<63, ^uint64(0), 0xdeadbeefcafebabe)
	}
	seenE := map[uint64]bool{}
	for _, ex := range exps {
		if seenE[ex] {
			continue
		}
		seenE[ex] = true
		ex := ex
		cases = append(cases, fieldCase{name: fmt.Sprintf("ExpExtension[e=%d]", ex), bound: bnd + fmt.Sprintf(", exponent %d", ex), build: func(fc *fctx) ([]frontend.Variable, []*ref.N) {
			a, ra := fc.qeIn("a")
			return fc.qeT(fc.chip.ExpExtension(a, ex)), eN(fc.rb.EExp(ra, ex))
		}})
		if ex <= 17 {
			cases = append(cases, fieldCase{name: fmt.Sprintf("ExpExtension[e=%d]/msb-first", ex), bound: bnd + fmt.Sprintf(", exponent %d, textbook MSB-first reference", ex), build: func(fc *fctx) ([]frontend.Variable, []*ref.N) {
				a, ra := fc.qeIn("a")
				return fc.qeT(fc.chip.ExpExtension(a, ex)), eN(fc.rb.EExpMSB(ra, ex))
			}})
		}
	}
	lens := []int{0, 1, 2, 3, 8, 16}
	if r.Thorough() {
		lens = append(lens, 64, 300)
	}
	for _, n := range lens {
		n := n
		cases = append(cases, fieldCase{name: fmt.Sprintf("ReduceWithPowers[len=%d]", n), bound: bnd + fmt.Sprintf(", %d terms", n), build: func(fc *fctx) ([]frontend.Variable, []*ref.N) {
			al, ral := fc.qeIn("alpha")
			var ts []gl.QuadraticExtensionVariable
			var rts []ref.E
			for i := 0; i < n; i++ {
				t, rt := fc.qeIn(fmt.Sprintf("t%d", i))
				ts = append(ts, t)
				rts = append(rts, rt)
			}
			return fc.qeT(fc.chip.ReduceWithPowers(ts, al)), eN(fc.rb.EReduceWithPowers(rts, ral))
		}})
		cases = append(cases, fieldCase{name: fmt.Sprintf("InnerProductExtension[len=%d]", n), bound: bnd + fmt.Sprintf(", %d pairs, constant 7", n), build: func(fc *fctx) ([]frontend.Variable, []*ref.N) {
			st, rst := fc.qeIn("start")
			var ps [][2]gl.QuadraticExtensionVariable
			var rps [][2]ref.E
			for i := 0; i < n; i++ {
				a, ra := fc.qeIn(fmt.Sprintf("a%d", i))
				b, rb := fc.qeIn(fmt.Sprintf("b%d", i))
				ps = append(ps, [2]gl.QuadraticExtensionVariable{a, b})
				rps = append(rps, [2]ref.E{ra, rb})
			}
			return fc.qeT(fc.chip.InnerProductExtension(gl.NewVariable(gl.W), st, ps)), eN(fc.rb.EInnerProduct(fc.rb.ConstU(7), rst, rps))
		}})
	}
	// algebra
	abin := func(name string, f func(ch *gl.Chip, a, b gl.QuadraticExtensionAlgebraVariable) gl.QuadraticExtensionAlgebraVariable, g func(b *ref.B, x, y ref.A) ref.A) {
		cases = append(cases, fieldCase{name: name, bound: bnd, build: func(fc *fctx) ([]frontend.Variable, []*ref.N) {
			a, ra := fc.algIn("a")
			b, rb := fc.algIn("b")
			return fc.algT(f(fc.chip, a, b)), aN(g(fc.rb, ra, rb))
		}})
	}
	abin("AddExtensionAlgebra", (*gl.Chip).AddExtensionAlgebra, (*ref.B).AAdd)
	abin("SubExtensionAlgebra", (*gl.Chip).SubExtensionAlgebra, (*ref.B).ASub)
	abin("MulExtensionAlgebra", (*gl.Chip).MulExtensionAlgebra, (*ref.B).AMul)
	cases = append(cases, fieldCase{name: "ScalarMulExtensionAlgebra", bound: bnd, build: func(fc *fctx) ([]frontend.Variable, []*ref.N) {
		s, rs := fc.qeIn("s")
		a, ra := fc.algIn("a")
		return fc.algT(fc.chip.ScalarMulExtensionAlgebra(s, a)), aN(fc.rb.AScalar(rs, ra))
	}})
	sizes := []int{1, 2, 3}
	if r.Thorough() {
		sizes = []int{1, 2, 3, 4, 5, 6}
	}
	for _, n := range sizes {
		n := n
		cases = append(cases, fieldCase{name: fmt.Sprintf("PartialInterpolateExtAlgebra[n=%d]", n), bound: bnd + fmt.Sprintf(", %d points, fixed pseudo-random domain/weights", n), build: func(fc *fctx) ([]frontend.Variable, []*ref.N) {
			var dom, wts []goldilocks.Element
			var rdom, rwts []*big.Int
			for i := 0; i < n; i++ {
				d := uint64(0x9e3779b97f4a7c15)*uint64(i+1) + 12345
				w := uint64(0xc2b2ae3d27d4eb4f)*uint64(i+3) + 99
				dom = append(dom, goldilocks.NewElement(d))
				wts = append(wts, goldilocks.NewElement(w))
				var de, we goldilocks.Element
				de.SetUint64(d)
				we.SetUint64(w)
				rdom = append(rdom, new(big.Int).SetUint64(de.Uint64()))
				rwts = append(rwts, new(big.Int).SetUint64(we.Uint64()))
			}
			var vals []gl.QuadraticExtensionAlgebraVariable
			var rvals []ref.A
			for i := 0; i < n; i++ {
				v, rv := fc.algIn(fmt.Sprintf("v%d", i))
				vals = append(vals, v)
				rvals = append(rvals, rv)
			}
			pt, rpt := fc.algIn("pt")
			ie, rie := fc.algIn("ie")
			ip, rip := fc.algIn("ip")
			o1, o2 := fc.chip.PartialInterpolateExtAlgebra(dom, vals, wts, pt, ie, ip)
			r1, r2 := fc.rb.APartialInterpolate(rdom, rvals, rwts, rpt, rie, rip)
			return append(fc.algT(o1), fc.algT(o2)...), append(aN(r1), aN(r2)...)
		}})
	}
	var stats []any
	for _, c := range append([]fieldCase{}, cases...) {
		c.alias = true
		c.name += " (alias mode)"
		cases = append(cases, c)
	}
	for _, c := range cases {
		q := runFieldCase(r, "extension-field", c, nil)
		if q != nil {
			stats = append(stats, q.stats())
		}
		r.Discharge()
	}
	for i, s := range stats {
		if i < 6 {
			r.Sample(s)
		}
	}
	// zero divisors are rejected: the constraints of InverseExtension/DivExtension are unsatisfiable for a = 0
	for _, nm := range []string{"InverseExtension", "DivExtension"} {
		setHooks(fieldHooks())
		api := newAPI(capPlain)
		e := cur
		w := newFieldRun(e)
		_ = w
		chip := newChip(api)
		a := gl.QuadraticExtensionVariable{gl.NewVariable(e.NamedAtom("a_0", "input", sym.Pm1)), gl.NewVariable(e.NamedAtom("a_1", "input", sym.Pm1))}
		if nm == "InverseExtension" {
			chip.InverseExtension(a)
		} else {
			b := gl.QuadraticExtensionVariable{gl.NewVariable(e.NamedAtom("b_0", "input", sym.Pm1)), gl.NewVariable(e.NamedAtom("b_1", "input", sym.Pm1))}
			chip.DivExtension(b, a)
		}
		clearHooks()
		forgetChips()
		em := sym.NewEmitter()
		em.DefMode = true
		em.AssertAll(e)
		var zs []string
		for _, at := range e.Atoms {
			if at.Name == "a_0" || at.Name == "a_1" {
				zs = append(zs, fmt.Sprintf("(= %s 0)", em.Ref(at)))
			}
		}
		em.Assert("(and " + strings.Join(zs, " ") + ")")
		nm := nm
		var vals []string
		for _, at := range e.Atoms {
			if at.Kind == "input" {
				vals = append(vals, at.Name)
			}
		}
		r.Add(&Ob{Name: nm + "/zero-rejected", Family: "extension-field", Script: em.String(), Values: vals, Site: nm + " of zero", Bound: "a = 0, all other operands",
			OnFail: func(res smt.Result) *Violation {
				// the real function on gnark's test engine with divisor 0 (and the model's dividend)
				g := func(n string) *big.Int {
					if v, ok := res.Model[n]; ok {
						return new(big.Int).Mod(v, P)
					}
					return big.NewInt(3)
				}
				c := &zeroDivCircuit{Fn: nm}
				w := &zeroDivCircuit{Fn: nm, A: [2]frontend.Variable{0, 0}, B: [2]frontend.Variable{g("b_0"), g("b_1")}}
				clearHooks()
				os.Setenv("USE_BIT_DECOMPOSITION_RANGE_CHECK", "true")
				var err error
				pm := catchPanic(func() { quiet(func() { err = test.IsSolved(c, w, R) }) })
				os.Unsetenv("USE_BIT_DECOMPOSITION_RANGE_CHECK")
				forgetChips()
				if pm != "" || err != nil {
					r.Note("%s with a zero divisor is rejected by the real code (%s)", nm, short(pm+fmt.Sprint(err), 80))
					return nil
				}
				return &Violation{What: nm + " accepts the divisor 0 (plonky2 has no inverse of zero; the constraints must be unsatisfiable)", Replay: map[string]any{"kind": "functional", "family": "extension-field", "case": nm + "/zero-rejected"}, Outcome: "gnark test engine on the real code: satisfied with divisor (0,0) and dividend (" + g("b_0").String() + "," + g("b_1").String() + ")"}
			}})
	}
	r.Bounds["values"] = "all canonical operand values (symbolic)"
	r.Bounds["configurations"] = fmt.Sprintf("exponents %v; list lengths %v; interpolation sizes %v", exps, lens, sizes)
	r.Assumptions = append(r.Assumptions,
		"leaf gadgets (MulAdd, Reduce, Inverse, RangeCheck) are replaced by their contracts (C05/C06/C07); every reduction's operand bound is re-checked here as a VC",
		"identities are proved over the integers on the lifted polynomials (constants by symmetric representatives), which implies congruence modulo p",
		"7 is a quadratic non-residue modulo p (norm of a non-zero extension element is non-zero)")
	r.Outside = append(r.Outside, "exponents, list lengths and interpolation sizes other than the listed ones (these are circuit-build-time parameters)")
}

// engineInputs runs the case symbolically once to learn its inputs (name, range) in creation
// order and returns them together with the reference outputs of that dry run.
func engineInputs(c fieldCase, hooks map[string]hookFn) (names []string, his []*big.Int, atoms map[string]*sym.Term, refs []*ref.N, err string) {
	setHooks(hooks)
	defer clearHooks()
	dry := &fctx{rb: ref.NewB(), rhandle: map[string]*replayHandle{}}
	err = catchPanic(func() {
		api := newAPI(capPlain)
		dry.api = api
		dry.chip = newChip(api)
		dry.e = cur
		dry.w = newFieldRun(cur)
		dry.w.noShapes = true
		_, refs = c.build(dry)
	})
	forgetChips()
	atoms = map[string]*sym.Term{}
	if err != "" {
		return
	}
	for _, a := range dry.e.Atoms {
		if a.Kind == "input" || a.Kind == "bit" {
			if _, isIn := dry.rb.VarOf(a); isIn {
				names = append(names, a.Name)
				his = append(his, a.Hi)
				atoms[a.Name] = a
			}
		}
	}
	return
}

// runCaseOnR1CS compiles the case's real code with gnark's R1CS builder (the builder that extends
// accumulators in place) and solves it with the given inputs and the reference's outputs; it
// reports whether the compiled system accepts the true results.
func runCaseOnR1CS(c fieldCase, names []string, env map[string]*big.Int, want []*big.Int) (bool, string) {
	old, had := os.LookupEnv("USE_BIT_DECOMPOSITION_RANGE_CHECK")
	os.Setenv("USE_BIT_DECOMPOSITION_RANGE_CHECK", "true")
	defer func() {
		if had {
			os.Setenv("USE_BIT_DECOMPOSITION_RANGE_CHECK", old)
		} else {
			os.Unsetenv("USE_BIT_DECOMPOSITION_RANGE_CHECK")
		}
	}()
	clearHooks()
	in := make([]frontend.Variable, len(names))
	for i, n := range names {
		in[i] = env[n]
	}
	id := len(caseReg) + 1
	caseReg[id] = &caseEntry{c: c, want: want}
	circuit := &caseCircuit{ID: id, In: make([]frontend.Variable, len(in))}
	witness := &caseCircuit{ID: id, In: in}
	var err error
	pm := catchPanic(func() {
		quiet(func() {
			var cs constraint.ConstraintSystem
			cs, err = frontend.Compile(R, r1cs.NewBuilder, circuit)
			if err != nil {
				return
			}
			var w witnessT
			w, err = frontend.NewWitness(witness, R)
			if err != nil {
				return
			}
			err = cs.IsSolved(w)
		})
	})
	forgetChips()
	if pm != "" {
		return false, "panic: " + short(pm, 160)
	}
	if err != nil {
		return false, short(err.Error(), 160)
	}
	return true, ""
}

// runCaseOnEngine executes the case's real code on gnark's test engine with the given input values
// (hooks stay installed: they only supply opaque inputs / switch off sub-checks) and reports
// whether all constraints are satisfied.
func runCaseOnEngine(c fieldCase, hooks map[string]hookFn, names []string, env map[string]*big.Int) (bool, string) {
	old, had := os.LookupEnv("USE_BIT_DECOMPOSITION_RANGE_CHECK")
	os.Setenv("USE_BIT_DECOMPOSITION_RANGE_CHECK", "true")
	defer func() {
		if had {
			os.Setenv("USE_BIT_DECOMPOSITION_RANGE_CHECK", old)
		} else {
			os.Unsetenv("USE_BIT_DECOMPOSITION_RANGE_CHECK")
		}
	}()
	setHooks(hooks)
	defer clearHooks()
	in := make([]frontend.Variable, len(names))
	for i, n := range names {
		in[i] = env[n]
	}
	id := len(caseReg) + 1
	caseReg[id] = &caseEntry{c: c}
	circuit := &caseCircuit{ID: id, In: make([]frontend.Variable, len(in))}
	witness := &caseCircuit{ID: id, In: in}
	var err error
	pm := catchPanic(func() { quiet(func() { err = test.IsSolved(circuit, witness, R) }) })
	forgetChips()
	if pm != "" {
		return false, "panic: " + short(pm, 160)
	}
	if err != nil {
		return false, short(err.Error(), 160)
	}
	return true, ""
}

// native GF(p^2) helpers for replays
func extMulN(a, b [2]*big.Int) [2]*big.Int {
	c0 := new(big.Int).Mul(a[0], b[0])
	t := new(big.Int).Mul(a[1], b[1])
	c0.Add(c0, t.Mul(t, big.NewInt(7))).Mod(c0, P)
	c1 := new(big.Int).Mul(a[0], b[1])
	c1.Add(c1, new(big.Int).Mul(a[1], b[0])).Mod(c1, P)
	return [2]*big.Int{c0, c1}
}
func extSubN(a, b [2]*big.Int) [2]*big.Int {
	return [2]*big.Int{new(big.Int).Mod(new(big.Int).Sub(a[0], b[0]), P), new(big.Int).Mod(new(big.Int).Sub(a[1], b[1]), P)}
}
func extInvN(a [2]*big.Int) [2]*big.Int {
	n := new(big.Int).Mul(a[0], a[0])
	t := new(big.Int).Mul(a[1], a[1])
	n.Sub(n, t.Mul(t, big.NewInt(7))).Mod(n, P)
	ni := new(big.Int).ModInverse(n, P)
	return [2]*big.Int{new(big.Int).Mod(new(big.Int).Mul(a[0], ni), P), new(big.Int).Mod(new(big.Int).Neg(new(big.Int).Mul(a[1], ni)), P)}
}

// engineInputsSafe: engineInputs for a case whose build may panic part-way (inputs created before
// the panic are still reported).
func engineInputsSafe(c fieldCase, hooks map[string]hookFn) (names []string, his []*big.Int, atoms map[string]*sym.Term, refs []*ref.N, err string) {
	return engineInputs(c, hooks)
}

type witnessT = witness.Witness
