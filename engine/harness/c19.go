package main

import (
	"github.com/consensys/gnark-crypto/ecc"
	"encoding/json"
	"fmt"
	gotypes "go/types"
	"hash/fnv"
	"math/big"
	"os"
	"reflect"
	"regexp"
	"sort"
	"strings"
	"time"

	"github.com/consensys/gnark/frontend"
	gl "github.com/wormhole-foundation/example-near-light-client/goldilocks"
	"github.com/wormhole-foundation/example-near-light-client/types"
	"github.com/wormhole-foundation/example-near-light-client/variables"
	"golang.org/x/tools/go/ssa"

	"verif/engine/smt"
	"verif/engine/ssax"
)

func init() { drivers["C19"] = runC19 }

// C19: the field-by-field copy code (variables/deserialize.go, goldilocks/utils.go conversion
// helpers, types/common_data.go) is executed symbolically from its SSA form on raw structures whose
// numbers are bit-vector variables, whose strings are opaque symbols and whose list lengths are
// symbolic. For every path the solver decides that the returned structure carries, at every
// position, exactly the value at the corresponding position of the input.
//
// Leaf helpers (one loop each) are explored for all lengths up to the bound; the composite
// functions are explored with the helpers replaced by their proved summaries.

type c19env struct {
	r       *Run
	p       *ssax.Program
	bigPtr  gotypes.Type
	u64     gotypes.Type
	leafB   int
	listB   int
	results map[string]bool
}

func (c *c19env) expVar(t ssax.Val) ssax.Val {
	return &ssax.StructV{F: []ssax.Val{&ssax.IfaceV{T: c.u64, V: t}}}
}
func (c *c19env) expQE(inner ssax.Val) ssax.Val {
	s := inner.(*ssax.SliceV)
	if s.B == nil || len(s.B.Cells)-s.Off < 2 {
		ssax.Unsupported("extension element with fewer than two materialised limbs")
	}
	return &ssax.ArrayV{E: []ssax.Val{c.expVar(s.B.Cells[s.Off].V), c.expVar(s.B.Cells[s.Off+1].V)}}
}
func (c *c19env) expHash(s ssax.Val) ssax.Val {
	return &ssax.IfaceV{T: c.bigPtr, V: &ssax.Opaque{Tag: "big.SetString/base10", Args: []ssax.Val{s}}}
}
func (c *c19env) expVars(in ssax.Val, elemT gotypes.Type) ssax.Val {
	return ssax.MapSlice(in.(*ssax.SliceV), elemT, func(_ int, v ssax.Val) ssax.Val { return c.expVar(v) })
}
func (c *c19env) expQEs(in ssax.Val, elemT gotypes.Type) ssax.Val {
	return ssax.MapSlice(in.(*ssax.SliceV), elemT, func(_ int, v ssax.Val) ssax.Val { return c.expQE(v) })
}
func (c *c19env) expHashes(in ssax.Val, elemT gotypes.Type) ssax.Val {
	return ssax.MapSlice(in.(*ssax.SliceV), elemT, func(_ int, v ssax.Val) ssax.Val { return c.expHash(v) })
}

var elemIdxRe = regexp.MustCompile(`![0-9]+$`)

func (c *c19env) gen(x *ssax.Exec) *ssax.Gen {
	isPair := func(path string, t gotypes.Type) bool {
		s, ok := t.Underlying().(*gotypes.Slice)
		if !ok || !elemIdxRe.MatchString(path) {
			return false
		}
		b, ok := s.Elem().Underlying().(*gotypes.Basic)
		return ok && b.Kind() == gotypes.Uint64
	}
	return &ssax.Gen{X: x, Index: map[string]ssax.Val{},
		Bound: func(path string, t gotypes.Type) (int, uint64) {
			if isPair(path, t) {
				return 2, 2
			}
			if strings.Count(path, ".") == 0 && !strings.Contains(path, "!") {
				return c.leafB, uint64(c.leafB) // the parameter of a leaf helper
			}
			return c.listB, uint64(c.listB)
		},
		Min: func(path string, t gotypes.Type) uint64 {
			if isPair(path, t) {
				return 2 // well-formed extension elements are pairs
			}
			return 0
		}}
}

func (c *c19env) exec() *ssax.Exec {
	x := newExec(c.r, c.p)
	x.Stubs["(*math/big.Int).SetString"] = func(x *ssax.Exec, args []ssax.Val, call *ssa.CallCommon) ssax.Val {
		base, ok := args[2].(*ssax.Term)
		if !ok || !base.Conc() {
			ssax.Unsupported("SetString with a symbolic base")
		}
		okv := x.Declare(x.Fresh("setstring.ok"), 0)
		num := &ssax.Opaque{Tag: fmt.Sprintf("big.SetString/base%d", base.Int()), Args: []ssax.Val{args[1]}}
		// the returned pointer stands for the number the numeral denotes - or nil for a malformed numeral; it is
		// a tracked cell so that later in-place operations (Mod) act on it. The receiver itself is another
		// thing: after a failed parse it is not nil but holds an unspecified value, so code that goes on with
		// the receiver instead of the returned pointer does not refuse malformed numerals
		if p, ok := args[0].(*ssax.PtrV); ok && !p.IsNil() {
			x.Store(p, &ssax.Opaque{Tag: fmt.Sprintf("big.SetString.receiver/base%d", base.Int()), Args: []ssax.Val{args[1]}})
			return &ssax.TupleV{E: []ssax.Val{&ssax.PtrV{Root: &ssax.Cell{V: num}}, okv}}
		}
		return &ssax.TupleV{E: []ssax.Val{num, okv}}
	}
	// the two BN254 moduli are named constants; reduction modulo the scalar field leaves the residue the
	// property speaks of unchanged, any other reduction is a different number
	for _, n := range []string{"BaseField", "ScalarField"} {
		n := n
		x.Stubs["(github.com/consensys/gnark-crypto/ecc.ID)."+n] = func(x *ssax.Exec, args []ssax.Val, call *ssa.CallCommon) ssax.Val {
			return &ssax.Opaque{Tag: "ecc." + n, Args: []ssax.Val{args[0]}}
		}
	}
	x.Stubs["(*math/big.Int).Mod"] = func(x *ssax.Exec, args []ssax.Val, call *ssa.CallCommon) ssax.Val {
		content := func(v ssax.Val) ssax.Val {
			if p, ok := v.(*ssax.PtrV); ok && !p.IsNil() {
				return x.Load(p)
			}
			return v
		}
		z, ok := args[0].(*ssax.PtrV)
		if !ok || z.IsNil() {
			ssax.Unsupported("big.Int.Mod on a receiver that is not a tracked pointer")
		}
		a, m := content(args[1]), content(args[2])
		if o, ok := m.(*ssax.Opaque); ok && o.Tag == "ecc.ScalarField" {
			if id, ok := o.Args[0].(*ssax.Term); ok && id.Conc() && id.Int() == int(ecc.BN254) {
				x.Store(z, a)
				return z
			}
		}
		x.Store(z, &ssax.Opaque{Tag: "big.Mod", Args: []ssax.Val{a, m}})
		return z
	}
	return x
}

// summaries replaces the proved leaf helpers by their contracts.
func (c *c19env) summaries(x *ssax.Exec) {
	res := func(call *ssa.CallCommon) gotypes.Type {
		return call.Signature().Results().At(0).Type().Underlying().(*gotypes.Slice).Elem()
	}
	x.Stubs[repoMod+"/goldilocks.Uint64ArrayToVariableArray"] = func(x *ssax.Exec, a []ssax.Val, call *ssa.CallCommon) ssax.Val {
		return c.expVars(a[0], res(call))
	}
	x.Stubs[repoMod+"/goldilocks.Uint64ArrayToQuadraticExtensionArray"] = func(x *ssax.Exec, a []ssax.Val, call *ssa.CallCommon) ssax.Val {
		return c.expQEs(a[0], res(call))
	}
	x.Stubs[repoMod+"/variables.StringArrayToHashBN254Array"] = func(x *ssax.Exec, a []ssax.Val, call *ssa.CallCommon) ssax.Val {
		return c.expHashes(a[0], res(call))
	}
	x.Stubs[repoMod+"/variables.DeserializeMerkleCap"] = func(x *ssax.Exec, a []ssax.Val, call *ssa.CallCommon) ssax.Val {
		return c.expHashes(a[0], res(call))
	}
}

// check explores fn and adds one obligation per path: the result equals want(input).
func (c *c19env) check(name string, f *ssa.Function, withSummaries bool, setup func(x *ssax.Exec),
	want func(x *ssax.Exec, g *ssax.Gen, args []ssax.Val, ret ssax.Val) (got, exp ssax.Val, extra []string),
	replay func(m map[string]*big.Int) (string, string)) {
	r := c.r
	if replay == nil {
		replay = c19Replays[name]
	}
	if f == nil {
		r.addViolationStructural("function missing: "+name, name+" does not exist in the current tree")
		return
	}
	// the comparison needs the executor state of the finished path, so it is done inside a wrapper:
	// Explore calls mk, runs fn; we post-process with a second execution along the recorded decisions.
	type pathOut struct {
		script string
		kind   string
		msg    string
		names  []string
		where  []string
	}
	newX := func() *ssax.Exec {
		x := c.exec()
		if withSummaries {
			c.summaries(x)
		}
		if setup != nil {
			setup(x)
		}
		return x
	}
	t0 := time.Now()
	// single worker wrapper: explore with the comparison as part of the executed function
	paths, nq := ssax.ExploreWith(16, newX, func(x *ssax.Exec) (*ssa.Function, []ssax.Val, func(ret ssax.Val) any) {
		g := c.gen(x)
		var args []ssax.Val
		for _, p := range f.Params {
			args = append(args, g.Make(p.Type(), p.Name()))
		}
		post := func(ret ssax.Val) any {
			got, exp, extra := want(x, g, args, ret)
			d := &ssax.Diff{X: x}
			d.Eq(got, exp, nil, "result")
			var names []string
			for k, v := range g.Index {
				if t, ok := v.(*ssax.Term); ok && !t.Conc() {
					names = append(names, k)
				}
				if s, ok := v.(*ssax.SliceV); ok && !s.Len.Conc() {
					names = append(names, k+".len")
				}
			}
			sort.Strings(names)
			conds := append(append([]string{}, d.Conds...), extra...)
			return &pathOut{script: orOf(conds), names: names, where: d.Where}
		}
		return f, args, post
	}, 20000)
	kinds := map[string]int{}
	for pi := range paths {
		pa := &paths[pi]
		kinds[pa.Kind]++
		switch pa.Kind {
		case "return":
			po, _ := pa.Post.(*pathOut)
			if po == nil {
				r.Infra("%s: path %d has no comparison result", name, pi)
				continue
			}
			if po.script == "false" {
				// every position is syntactically the prescribed term: still record it as an obligation
				po.script = "false"
			}
			where := po.where
			// read back every declared symbol (stubs declare symbols that the parameter generator does not know)
			po.names = po.names[:0]
			for _, d := range pa.Decls {
				if f := strings.Fields(d); len(f) >= 2 && f[0] == "(declare-const" {
					po.names = append(po.names, f[1])
				}
			}
			r.Add(&Ob{Name: fmt.Sprintf("copy-faithful[%s] path %d", name, pi), Family: "deserialize-copy", Script: pa.Script(po.script), Site: "deserialization: " + name, Bound: fmt.Sprintf("%s: lists up to %d (leaf helpers up to %d) elements", name, c.listB, c.leafB), Values: po.names, TO: 60 * time.Second,
				OnFail: func(res smt.Result) *Violation {
					if replay == nil {
						return nil
					}
					style, got, wantS := c19Replay(name, res.Model)
					if style == "" {
						return nil
					}
					m := map[string]string{}
					for k, v := range res.Model {
						if v.Sign() != 0 {
							m[k] = v.String()
						}
					}
					return &Violation{What: fmt.Sprintf("%s does not return the input values at their positions (first differing positions examined: %s): real function gives %s, the document prescribes %s", name, short(strings.Join(where, "; "), 160), short(got, 200), short(wantS, 200)),
						Replay: map[string]any{"kind": "deserialize", "function": name, "model": m, "strings": style}, Outcome: "real function run on the solver's input (strings made concrete as " + style + " numerals) differs from the reference"}
				}})
		case "panic":
			// a panic on a well-formed input is a refusal of a valid document
			pa := pa
			r.Add(&Ob{Name: fmt.Sprintf("no-refusal[%s] path %d (%s)", name, pi, short(pa.Msg, 30)), Family: "deserialize-copy", Script: pa.Script(extraAssume(name)...), Site: "deserialization refuses a well-formed value: " + name, Bound: name, TO: 60 * time.Second,
				OnFail: func(res smt.Result) *Violation {
					if replay == nil {
						return nil
					}
					style, got, wantS := c19Replay(name, res.Model)
					if style == "" || !strings.HasPrefix(got, "panic") || strings.HasPrefix(wantS, "panic") {
						return nil
					}
					m := map[string]string{}
					for k, v := range res.Model {
						if v.Sign() != 0 {
							m[k] = v.String()
						}
					}
					return &Violation{What: fmt.Sprintf("%s refuses a well-formed value: %s", name, short(got, 200)), Replay: map[string]any{"kind": "deserialize", "function": name, "model": m}, Outcome: "real function panics on the solver's input"}
				}})
		default:
			r.Infra("%s: path %d ends with %s: %s", name, pi, pa.Kind, pa.Msg)
		}
	}
	if kinds["return"] == 0 {
		r.Infra("%s: no returning path", name)
	}
	r.Sample(map[string]any{"function": name, "paths": len(paths), "by_outcome": kinds, "feasibility_queries": nq, "explore_seconds": time.Since(t0).Seconds(), "summaries_used": withSummaries})
}

// extraAssume: well-formedness facts under which a panic counts as a refusal of a valid document.
func extraAssume(name string) []string {
	if strings.Contains(name, "ReadCommonCircuitData") {
		return []string{"(not raw.FriParams.Hiding)", "(= raw.SelectorsInfo.Groups.len raw.SelectorsInfo.Groups.len)"}
	}
	return nil
}

func orOf(conds []string) string {
	if len(conds) == 0 {
		return "false"
	}
	return "(or " + strings.Join(conds, "\n    ") + ")"
}

func runC19(r *Run) {
	r.Functions = []string{"goldilocks.Uint64ArrayToVariableArray", "goldilocks.Uint64ArrayToQuadraticExtensionArray", "goldilocks.NewVariable", "goldilocks.NewQuadraticExtensionVariable", "variables.StringArrayToHashBN254Array", "variables.DeserializeMerkleCap", "variables.DeserializeOpeningSet", "variables.DeserializeFriProof", "variables.DeserializeProofWithPublicInputs", "variables.DeserializeVerifierOnlyCircuitData", "types.ReadCommonCircuitData", "gates.NewSelectorsInfo"}
	p := loadSSA(r)
	if p == nil {
		return
	}
	c := &c19env{r: r, p: p, leafB: 4, listB: 2, u64: gotypes.Typ[gotypes.Uint64]}
	if r.Thorough() {
		c.leafB, c.listB = 8, 3
	}
	bigPkg := p.Prog.ImportedPackage("math/big")
	if bigPkg == nil {
		r.Infra("math/big is not among the loaded packages")
		return
	}
	c.bigPtr = gotypes.NewPointer(bigPkg.Type("Int").Type())
	glp, vp, tp := repoMod+"/goldilocks", repoMod+"/variables", repoMod+"/types"
	resElem := func(f *ssa.Function) gotypes.Type {
		return f.Signature.Results().At(0).Type().Underlying().(*gotypes.Slice).Elem()
	}
	// ---- leaf helpers
	leaf := func(pkg, fname string, exp func(in ssax.Val, et gotypes.Type) ssax.Val, replay func(m map[string]*big.Int) (string, string)) {
		f := p.Func(pkg, fname)
		if f == nil {
			r.addViolationStructural("function missing: "+fname, fname+" does not exist in the current tree")
			return
		}
		c.check(fname, f, false, nil, func(x *ssax.Exec, g *ssax.Gen, args []ssax.Val, ret ssax.Val) (ssax.Val, ssax.Val, []string) {
			return ret, exp(args[0], resElem(f)), nil
		}, replay)
	}
	leaf(glp, "Uint64ArrayToVariableArray", c.expVars, nil)
	leaf(glp, "Uint64ArrayToQuadraticExtensionArray", c.expQEs, nil)
	leaf(vp, "StringArrayToHashBN254Array", c.expHashes, nil)
	leaf(vp, "DeserializeMerkleCap", c.expHashes, nil)
	r.Discharge()
	// ---- composites (helpers summarised)
	// expected FRI proof from the raw opening proof
	expFri := func(x *ssax.Exec, raw ssax.TV, outT gotypes.Type) ssax.Val {
		ft := func(t gotypes.Type, n string) gotypes.Type { return ssax.FieldType(t, n) }
		elem := func(t gotypes.Type) gotypes.Type { return t.Underlying().(*gotypes.Slice).Elem() }
		capsT := ft(outT, "CommitPhaseMerkleCaps")
		caps := ssax.MapSlice(raw.F(x, "CommitPhaseMerkleCaps").Slice(), elem(capsT), func(_ int, v ssax.Val) ssax.Val {
			return c.expHashes(v, elem(elem(capsT)))
		})
		qT := ft(outT, "QueryRoundProofs")
		roundT := elem(qT)
		rawRoundT := elem(raw.F(x, "QueryRoundProofs").T)
		rounds := ssax.MapSlice(raw.F(x, "QueryRoundProofs").Slice(), roundT, func(_ int, v ssax.Val) ssax.Val {
			rr := ssax.TV{V: v, T: rawRoundT}
			itT := ft(roundT, "InitialTreesProof")
			epsT := ft(itT, "EvalsProofs")
			epT := elem(epsT)
			rawEps := rr.F(x, "InitialTreesProof").F(x, "EvalsProofs")
			rawEpT := elem(rawEps.T)
			eps := ssax.MapSlice(rawEps.Slice(), epT, func(_ int, e ssax.Val) ssax.Val {
				re := ssax.TV{V: e, T: rawEpT}
				mpT := ft(epT, "MerkleProof")
				return ssax.MkStruct(epT, map[string]ssax.Val{
					"Elements":    c.expVars(re.F(x, "LeafElements").V, elem(ft(epT, "Elements"))),
					"MerkleProof": ssax.MkStruct(mpT, map[string]ssax.Val{"Siblings": c.expHashes(re.F(x, "MerkleProof").F(x, "Hash").V, elem(ft(mpT, "Siblings")))}),
				})
			})
			stepsT := ft(roundT, "Steps")
			stT := elem(stepsT)
			rawSteps := rr.F(x, "Steps")
			rawStT := elem(rawSteps.T)
			steps := ssax.MapSlice(rawSteps.Slice(), stT, func(_ int, e ssax.Val) ssax.Val {
				rs := ssax.TV{V: e, T: rawStT}
				mpT := ft(stT, "MerkleProof")
				return ssax.MkStruct(stT, map[string]ssax.Val{
					"Evals":       c.expQEs(rs.F(x, "Evals").V, elem(ft(stT, "Evals"))),
					"MerkleProof": ssax.MkStruct(mpT, map[string]ssax.Val{"Siblings": c.expHashes(rs.F(x, "MerkleProof").F(x, "Siblings").V, elem(ft(mpT, "Siblings")))}),
				})
			})
			return ssax.MkStruct(roundT, map[string]ssax.Val{
				"InitialTreesProof": ssax.MkStruct(itT, map[string]ssax.Val{"EvalsProofs": eps}),
				"Steps":             steps,
			})
		})
		fpT := ft(outT, "FinalPoly")
		return ssax.MkStruct(outT, map[string]ssax.Val{
			"CommitPhaseMerkleCaps": caps,
			"QueryRoundProofs":      rounds,
			"FinalPoly":             ssax.MkStruct(fpT, map[string]ssax.Val{"Coeffs": c.expQEs(raw.F(x, "FinalPoly").F(x, "Coeffs").V, elem(ft(fpT, "Coeffs")))}),
			"PowWitness":            c.expVar(raw.F(x, "PowWitness").V),
		})
	}
	expOpenings := func(x *ssax.Exec, raw ssax.TV, outT gotypes.Type) ssax.Val {
		m := map[string]ssax.Val{}
		for _, n := range []string{"Constants", "PlonkSigmas", "Wires", "PlonkZs", "PlonkZsNext", "PartialProducts", "QuotientPolys"} {
			m[n] = c.expQEs(raw.F(x, n).V, ssax.FieldType(outT, n).Underlying().(*gotypes.Slice).Elem())
		}
		return ssax.MkStruct(outT, m)
	}
	if f := p.Func(vp, "DeserializeOpeningSet"); f != nil {
		c.check("DeserializeOpeningSet", f, true, nil, func(x *ssax.Exec, g *ssax.Gen, args []ssax.Val, ret ssax.Val) (ssax.Val, ssax.Val, []string) {
			return ret, expOpenings(x, ssax.TV{V: args[0], T: f.Params[0].Type()}, f.Signature.Results().At(0).Type()), nil
		}, nil)
	} else {
		r.addViolationStructural("function missing: DeserializeOpeningSet", "variables.DeserializeOpeningSet does not exist")
	}
	if f := p.Func(vp, "DeserializeFriProof"); f != nil {
		c.check("DeserializeFriProof", f, true, nil, func(x *ssax.Exec, g *ssax.Gen, args []ssax.Val, ret ssax.Val) (ssax.Val, ssax.Val, []string) {
			return ret, expFri(x, ssax.TV{V: args[0], T: f.Params[0].Type()}, f.Signature.Results().At(0).Type()), nil
		}, nil)
	} else {
		r.addViolationStructural("function missing: DeserializeFriProof", "variables.DeserializeFriProof does not exist")
	}
	r.Discharge()
	if f := p.Func(vp, "DeserializeProofWithPublicInputs"); f != nil {
		c.check("DeserializeProofWithPublicInputs", f, true, func(x *ssax.Exec) {
			// DeserializeFriProof and DeserializeOpeningSet are decided above: use their contracts here
			x.Stubs[vp+".DeserializeFriProof"] = func(x *ssax.Exec, a []ssax.Val, call *ssa.CallCommon) ssax.Val {
				return expFri(x, ssax.TV{V: a[0], T: call.Signature().Params().At(0).Type()}, call.Signature().Results().At(0).Type())
			}
			x.Stubs[vp+".DeserializeOpeningSet"] = func(x *ssax.Exec, a []ssax.Val, call *ssa.CallCommon) ssax.Val {
				return expOpenings(x, ssax.TV{V: a[0], T: call.Signature().Params().At(0).Type()}, call.Signature().Results().At(0).Type())
			}
		}, func(x *ssax.Exec, g *ssax.Gen, args []ssax.Val, ret ssax.Val) (ssax.Val, ssax.Val, []string) {
			raw := ssax.TV{V: args[0], T: f.Params[0].Type()}
			outT := f.Signature.Results().At(0).Type()
			pT := ssax.FieldType(outT, "Proof")
			rp := raw.F(x, "Proof")
			elem := func(t gotypes.Type) gotypes.Type { return t.Underlying().(*gotypes.Slice).Elem() }
			proof := ssax.MkStruct(pT, map[string]ssax.Val{
				"WiresCap":                  c.expHashes(rp.F(x, "WiresCap").V, elem(ssax.FieldType(pT, "WiresCap"))),
				"PlonkZsPartialProductsCap": c.expHashes(rp.F(x, "PlonkZsPartialProductsCap").V, elem(ssax.FieldType(pT, "PlonkZsPartialProductsCap"))),
				"QuotientPolysCap":          c.expHashes(rp.F(x, "QuotientPolysCap").V, elem(ssax.FieldType(pT, "QuotientPolysCap"))),
				"Openings":                  expOpenings(x, rp.F(x, "Openings"), ssax.FieldType(pT, "Openings")),
				"OpeningProof":              expFri(x, rp.F(x, "OpeningProof"), ssax.FieldType(pT, "OpeningProof")),
			})
			exp := &ssax.TupleV{E: []ssax.Val{
				ssax.MkStruct(outT, map[string]ssax.Val{"Proof": proof, "PublicInputs": c.expVars(raw.F(x, "PublicInputs").V, elem(ssax.FieldType(outT, "PublicInputs")))}),
				raw.F(x, "PublicInputs").V,
			}}
			got, _ := ret.(*ssax.TupleV)
			if got == nil || len(got.E) != 2 {
				ssax.Unsupported("DeserializeProofWithPublicInputs does not return two values")
			}
			return &ssax.ArrayV{E: got.E}, &ssax.ArrayV{E: exp.E}, nil
		}, nil)
	} else {
		r.addViolationStructural("function missing: DeserializeProofWithPublicInputs", "variables.DeserializeProofWithPublicInputs does not exist")
	}
	if f := p.Func(vp, "DeserializeVerifierOnlyCircuitData"); f != nil {
		c.check("DeserializeVerifierOnlyCircuitData", f, true, nil, func(x *ssax.Exec, g *ssax.Gen, args []ssax.Val, ret ssax.Val) (ssax.Val, ssax.Val, []string) {
			raw := ssax.TV{V: args[0], T: f.Params[0].Type()}
			outT := f.Signature.Results().At(0).Type()
			return ret, ssax.MkStruct(outT, map[string]ssax.Val{
				"ConstantSigmasCap": c.expHashes(raw.F(x, "ConstantsSigmasCap").V, ssax.FieldType(outT, "ConstantSigmasCap").Underlying().(*gotypes.Slice).Elem()),
				"CircuitDigest":     c.expHash(raw.F(x, "CircuitDigest").V),
			}), nil
		}, nil)
	}
	r.Discharge()
	// ---- common circuit data
	if f := p.Func(tp, "ReadCommonCircuitData"); f != nil {
		var rawTV = map[*ssax.Exec]ssax.TV{}
		c.check("ReadCommonCircuitData", f, true, func(x *ssax.Exec) {
			nilErr := &ssax.IfaceV{}
			x.Stubs["os.Open"] = func(x *ssax.Exec, a []ssax.Val, call *ssa.CallCommon) ssax.Val {
				return &ssax.TupleV{E: []ssax.Val{&ssax.Opaque{Tag: "os.File"}, nilErr}}
			}
			x.Stubs["(*os.File).Close"] = func(x *ssax.Exec, a []ssax.Val, call *ssa.CallCommon) ssax.Val { return nilErr }
			x.Stubs["io.ReadAll"] = func(x *ssax.Exec, a []ssax.Val, call *ssa.CallCommon) ssax.Val {
				return &ssax.TupleV{E: []ssax.Val{&ssax.SliceV{Len: ssax.BVu(64, 0)}, nilErr}}
			}
			x.Stubs["encoding/json.Unmarshal"] = func(x *ssax.Exec, a []ssax.Val, call *ssa.CallCommon) ssax.Val {
				iv, ok := a[1].(*ssax.IfaceV)
				if !ok || iv.T == nil {
					ssax.Unsupported("json.Unmarshal into a nil interface")
				}
				pt, ok := iv.T.Underlying().(*gotypes.Pointer)
				if !ok {
					ssax.Unsupported("json.Unmarshal into a non-pointer")
				}
				g := c.gen(x)
				v := g.Make(pt.Elem(), "raw")
				x.Store(iv.V.(*ssax.PtrV), v)
				rawTV[x] = ssax.TV{V: v, T: pt.Elem()}
				return nilErr
			}
		}, func(x *ssax.Exec, g *ssax.Gen, args []ssax.Val, ret ssax.Val) (ssax.Val, ssax.Val, []string) {
			raw, ok := rawTV[x]
			if !ok {
				ssax.Unsupported("ReadCommonCircuitData did not call json.Unmarshal")
			}
			outT := f.Signature.Results().At(0).Type()
			cfgT := ssax.FieldType(outT, "Config")
			friCfgT := ssax.FieldType(cfgT, "FriConfig")
			fpT := ssax.FieldType(outT, "FriParams")
			friCfg := func(rc ssax.TV) ssax.Val {
				return ssax.MkStruct(friCfgT, map[string]ssax.Val{"RateBits": rc.F(x, "RateBits").V, "CapHeight": rc.F(x, "CapHeight").V, "ProofOfWorkBits": rc.F(x, "ProofOfWorkBits").V, "NumQueryRounds": rc.F(x, "NumQueryRounds").V})
			}
			rc := raw.F(x, "Config")
			cfg := map[string]ssax.Val{"FriConfig": friCfg(rc.F(x, "FriConfig"))}
			for _, n := range []string{"NumWires", "NumRoutedWires", "NumConstants", "UseBaseArithmeticGate", "SecurityBits", "NumChallenges", "ZeroKnowledge", "MaxQuotientDegreeFactor"} {
				cfg[n] = rc.F(x, n).V
			}
			rf := raw.F(x, "FriParams")
			siT := ssax.FieldType(outT, "SelectorsInfo")
			groupsT := ssax.FieldType(siT, "groups")
			rangeT := groupsT.Underlying().(*gotypes.Slice).Elem()
			rg := raw.F(x, "SelectorsInfo").F(x, "Groups")
			rgT := rg.T.Underlying().(*gotypes.Slice).Elem()
			groups := ssax.MapSlice(rg.Slice(), rangeT, func(_ int, v ssax.Val) ssax.Val {
				e := ssax.TV{V: v, T: rgT}
				return ssax.MkStruct(rangeT, map[string]ssax.Val{"start": e.F(x, "Start").V, "end": e.F(x, "End").V})
			})
			exp := map[string]ssax.Val{
				"Config": ssax.MkStruct(cfgT, cfg),
				"FriParams": ssax.MkStruct(fpT, map[string]ssax.Val{"Config": friCfg(rf.F(x, "Config")), "Hiding": ssax.Bool(false), "DegreeBits": rf.F(x, "DegreeBits").V,
					"ReductionArityBits": rf.F(x, "ReductionArityBits").V}),
				"GateIds":       raw.F(x, "Gates").V,
				"SelectorsInfo": ssax.MkStruct(siT, map[string]ssax.Val{"selectorIndices": raw.F(x, "SelectorsInfo").F(x, "SelectorIndices").V, "groups": groups}),
				"DegreeBits":    rf.F(x, "DegreeBits").V,
			}
			for _, n := range []string{"QuotientDegreeFactor", "NumGateConstraints", "NumConstants", "NumPublicInputs", "KIs", "NumPartialProducts"} {
				exp[n] = raw.F(x, n).V
			}
			// a returning path must not have hiding enabled
			return ret, ssax.MkStruct(outT, exp), []string{"raw.FriParams.Hiding"}
		}, nil)
	} else {
		r.addViolationStructural("function missing: ReadCommonCircuitData", "types.ReadCommonCircuitData does not exist")
	}
	r.Discharge()
	c19Concrete(r, c)
	r.Bounds["lists"] = fmt.Sprintf("leaf conversion helpers: every length up to %d; composite functions: every combination of lengths up to %d for the lists they iterate themselves (commit-phase caps, query rounds, eval proofs, steps, selector groups), all other lists of symbolic length up to %d handled through the helpers' contracts", c.leafB, c.listB, c.listB)
	r.Bounds["values"] = "every number is a 64-bit bit-vector variable (all values), every string an uninterpreted symbol (all strings)"
	r.Assumptions = append(r.Assumptions,
		"encoding/json (decoding of the document into the raw Go structures, refusal of negative / fractional / over-64-bit numbers and of scalars where lists are expected) is Go's standard library and is not executed symbolically: the raw structure after json.Unmarshal is an arbitrary value of its type",
		"(*big.Int).SetString(s, 10) is a stub: it returns the integer s denotes in base 10, or nil when s is not a decimal numeral; the repository discards the ok flag, so a malformed hash string becomes a nil *big.Int, which gnark refuses when the assignment is turned into a witness (confirmed by a concrete run, see samples)",
		"extension-field elements of a well-formed document are pairs (inner lists of length exactly 2); longer inner lists would be truncated silently by Uint64ArrayToQuadraticExtensionArray, shorter ones panic")
	r.Outside = append(r.Outside, "the json struct tags and the two custom UnmarshalJSON methods (tuple decoding of [leaf, {siblings}] pairs) are exercised only by the concrete round-trip of part (c), not symbolically", "lists longer than the bounds")
	r.Stubs = append(r.Stubs, "(*math/big.Int).SetString", "os.Open", "(*os.File).Close", "io.ReadAll", "encoding/json.Unmarshal (havoc of the target)")
}

// ---------------------------------------------------------------- concrete helpers (replays)

func proofReplayFn(m map[string]*big.Int) (string, string) {
	var raw types.ProofWithPublicInputsRaw
	fill(reflect.ValueOf(&raw).Elem(), "raw", m)
	var got variables.ProofWithPublicInputs
	var pis []uint64
	msg := catchPanic(func() { got, pis = variables.DeserializeProofWithPublicInputs(raw) })
	if msg != "" {
		return "panic: " + msg, canon(refProof(raw))
	}
	return canon(got) + canon(pis), canon(refProof(raw)) + canon(raw.PublicInputs)
}

func init() {
	replayKinds["deserialize"] = func(prop, path string, raw json.RawMessage, repo string) int {
		var c struct {
			Function string            `json:"function"`
			Model    map[string]string `json:"model"`
		}
		json.Unmarshal(raw, &c)
		m := map[string]*big.Int{}
		for k, v := range c.Model {
			b, _ := new(big.Int).SetString(v, 10)
			m[k] = b
		}
		style, got, want := c19Replay(c.Function, m)
		fmt.Printf("replay %s: %s on the recorded input -> strings as %q: real %s / prescribed %s\n", prop, c.Function, style, short(got, 300), short(want, 300))
		if style != "" {
			fmt.Printf("VIOLATION property=%s replay=%s\n", prop, path)
			return 1
		}
		fmt.Println("not reproduced on the current tree")
		return 0
	}
}

func refVar(v uint64) gl.Variable { return gl.Variable{Limb: v} }
func refVars(in []uint64) []gl.Variable {
	var out []gl.Variable
	for _, v := range in {
		out = append(out, refVar(v))
	}
	return out
}
func refQEs(in [][]uint64) []gl.QuadraticExtensionVariable {
	var out []gl.QuadraticExtensionVariable
	for _, v := range in {
		out = append(out, gl.QuadraticExtensionVariable{refVar(v[0]), refVar(v[1])})
	}
	return out
}
func refHash(s string) frontend.Variable {
	b, ok := new(big.Int).SetString(s, 10)
	if !ok {
		return (*big.Int)(nil)
	}
	return b
}
func refHashes(in []string) []frontend.Variable {
	var out []frontend.Variable
	for _, s := range in {
		out = append(out, refHash(s))
	}
	return out
}

func refProof(raw types.ProofWithPublicInputsRaw) variables.ProofWithPublicInputs {
	var o variables.ProofWithPublicInputs
	o.Proof.WiresCap = refHashes(raw.Proof.WiresCap)
	o.Proof.PlonkZsPartialProductsCap = refHashes(raw.Proof.PlonkZsPartialProductsCap)
	o.Proof.QuotientPolysCap = refHashes(raw.Proof.QuotientPolysCap)
	op := raw.Proof.Openings
	o.Proof.Openings = variables.OpeningSet{Constants: refQEs(op.Constants), PlonkSigmas: refQEs(op.PlonkSigmas), Wires: refQEs(op.Wires), PlonkZs: refQEs(op.PlonkZs), PlonkZsNext: refQEs(op.PlonkZsNext), PartialProducts: refQEs(op.PartialProducts), QuotientPolys: refQEs(op.QuotientPolys)}
	fp := raw.Proof.OpeningProof
	for _, cp := range fp.CommitPhaseMerkleCaps {
		o.Proof.OpeningProof.CommitPhaseMerkleCaps = append(o.Proof.OpeningProof.CommitPhaseMerkleCaps, refHashes(cp))
	}
	for _, q := range fp.QueryRoundProofs {
		var rd variables.FriQueryRound
		for _, e := range q.InitialTreesProof.EvalsProofs {
			var ep variables.FriEvalProof
			ep.Elements = refVars(e.LeafElements)
			ep.MerkleProof.Siblings = refHashes(e.MerkleProof.Hash)
			rd.InitialTreesProof.EvalsProofs = append(rd.InitialTreesProof.EvalsProofs, ep)
		}
		for _, s := range q.Steps {
			var st variables.FriQueryStep
			st.Evals = refQEs(s.Evals)
			st.MerkleProof.Siblings = refHashes(s.MerkleProof.Siblings)
			rd.Steps = append(rd.Steps, st)
		}
		o.Proof.OpeningProof.QueryRoundProofs = append(o.Proof.OpeningProof.QueryRoundProofs, rd)
	}
	o.Proof.OpeningProof.FinalPoly.Coeffs = refQEs(fp.FinalPoly.Coeffs)
	o.Proof.OpeningProof.PowWitness = refVar(fp.PowWitness)
	o.PublicInputs = refVars(raw.PublicInputs)
	return o
}

// refCommon renders the prescribed content of CommonCircuitData in canon form (the selector
// structure has private fields and is rendered by hand: the reference must not call the code under test).
func refCommon(raw types.CommonCircuitDataRaw) string {
	var o types.CommonCircuitData
	o.Config.NumWires, o.Config.NumRoutedWires, o.Config.NumConstants = raw.Config.NumWires, raw.Config.NumRoutedWires, raw.Config.NumConstants
	o.Config.UseBaseArithmeticGate, o.Config.SecurityBits, o.Config.NumChallenges = raw.Config.UseBaseArithmeticGate, raw.Config.SecurityBits, raw.Config.NumChallenges
	o.Config.ZeroKnowledge, o.Config.MaxQuotientDegreeFactor = raw.Config.ZeroKnowledge, raw.Config.MaxQuotientDegreeFactor
	o.Config.FriConfig = types.FriConfig{RateBits: raw.Config.FriConfig.RateBits, CapHeight: raw.Config.FriConfig.CapHeight, ProofOfWorkBits: raw.Config.FriConfig.ProofOfWorkBits, NumQueryRounds: raw.Config.FriConfig.NumQueryRounds}
	o.FriParams.Config = types.FriConfig{RateBits: raw.FriParams.Config.RateBits, CapHeight: raw.FriParams.Config.CapHeight, ProofOfWorkBits: raw.FriParams.Config.ProofOfWorkBits, NumQueryRounds: raw.FriParams.Config.NumQueryRounds}
	o.FriParams.DegreeBits, o.FriParams.ReductionArityBits = raw.FriParams.DegreeBits, raw.FriParams.ReductionArityBits
	o.GateIds, o.DegreeBits, o.QuotientDegreeFactor = raw.Gates, raw.FriParams.DegreeBits, raw.QuotientDegreeFactor
	o.NumGateConstraints, o.NumConstants, o.NumPublicInputs, o.KIs, o.NumPartialProducts = raw.NumGateConstraints, raw.NumConstants, raw.NumPublicInputs, raw.KIs, raw.NumPartialProducts
	var sb strings.Builder
	sb.WriteString("SelectorsInfo:{selectorIndices:[")
	for _, v := range raw.SelectorsInfo.SelectorIndices {
		fmt.Fprintf(&sb, "%d ", v)
	}
	sb.WriteString("] groups:[")
	for _, g := range raw.SelectorsInfo.Groups {
		fmt.Fprintf(&sb, "{start:%d end:%d } ", g.Start, g.End)
	}
	sb.WriteString("] }")
	return strings.Replace(canon(o), "SelectorsInfo:{selectorIndices:[] groups:[] }", sb.String(), 1)
}

// fillStyle selects how opaque strings of a model are made concrete (decimal numerals by default;
// the other styles are numerals that only a wrong base / a laxer parser would accept or read differently).
var fillStyle = "decimal"

var fillStyles = []string{"decimal", "leading-zero", "hex", "underscore", "hexdigits", "huge", "negative"}

// c19Replays: concrete differential runs by function name (real function vs reference on the same input).
var c19Replays = map[string]func(m map[string]*big.Int) (string, string){
	"Uint64ArrayToVariableArray": func(m map[string]*big.Int) (string, string) {
		var in []uint64
		fill(reflect.ValueOf(&in).Elem(), "input", m)
		return canon(fn[func([]uint64) []gl.Variable]("goldilocks.Uint64ArrayToVariableArray")(in)), canon(refVars(in))
	},
	"Uint64ArrayToQuadraticExtensionArray": func(m map[string]*big.Int) (string, string) {
		var in [][]uint64
		fill(reflect.ValueOf(&in).Elem(), "input", m)
		return canon(fn[func([][]uint64) []gl.QuadraticExtensionVariable]("goldilocks.Uint64ArrayToQuadraticExtensionArray")(in)), canon(refQEs(in))
	},
	"StringArrayToHashBN254Array": func(m map[string]*big.Int) (string, string) {
		var in []string
		fill(reflect.ValueOf(&in).Elem(), "rawHashes", m)
		return canon(variables.StringArrayToHashBN254Array(in)), canon(refHashes(in))
	},
	"DeserializeMerkleCap": func(m map[string]*big.Int) (string, string) {
		var in []string
		fill(reflect.ValueOf(&in).Elem(), "merkleCapRaw", m)
		return canon(variables.DeserializeMerkleCap(in)), canon(refHashes(in))
	},
	"DeserializeOpeningSet": func(m map[string]*big.Int) (string, string) {
		return proofReplayFn(renameModel(m, "openingSetRaw", "raw.Proof.Openings"))
	},
	"DeserializeFriProof": func(m map[string]*big.Int) (string, string) {
		return proofReplayFn(renameModel(m, "openingProofRaw", "raw.Proof.OpeningProof"))
	},
	"DeserializeProofWithPublicInputs": proofReplayFn,
	"DeserializeVerifierOnlyCircuitData": func(m map[string]*big.Int) (string, string) {
		var raw types.VerifierOnlyCircuitDataRaw
		fill(reflect.ValueOf(&raw).Elem(), "raw", m)
		return canon(variables.DeserializeVerifierOnlyCircuitData(raw)), canon(variables.VerifierOnlyCircuitData{ConstantSigmasCap: refHashes(raw.ConstantsSigmasCap), CircuitDigest: refHash(raw.CircuitDigest)})
	},
	"ReadCommonCircuitData": func(m map[string]*big.Int) (string, string) {
		var raw types.CommonCircuitDataRaw
		fill(reflect.ValueOf(&raw).Elem(), "raw", m)
		b, _ := json.Marshal(raw)
		f, err := os.CreateTemp("", "c19_common_*.json")
		if err != nil {
			return "cannot write", "scratch file"
		}
		f.Write(b)
		f.Close()
		defer os.Remove(f.Name())
		var got types.CommonCircuitData
		msg := catchPanic(func() { got = types.ReadCommonCircuitData(f.Name()) })
		if msg != "" {
			got2 := "panic: " + msg
			if raw.FriParams.Hiding {
				return got2, got2
			}
			return got2, refCommon(raw)
		}
		if raw.FriParams.Hiding {
			return "accepted a document with hiding enabled", "refusal"
		}
		return canon(got), refCommon(raw)
	},
}

// c19Replay tries every string style; it returns the first style under which the real function and
// the reference disagree.
func c19Replay(name string, m map[string]*big.Int) (style, got, want string) {
	f := c19Replays[name]
	if f == nil {
		return "", "", ""
	}
	defer func() { fillStyle = "decimal" }()
	for _, st := range fillStyles {
		fillStyle = st
		var g, w string
		if msg := catchPanic(func() { g, w = f(m) }); msg != "" {
			g, w = "panic: "+msg, "no panic"
		}
		if g != w {
			return st, g, w
		}
	}
	return "", "", ""
}

func renameModel(m map[string]*big.Int, from, to string) map[string]*big.Int {
	o := map[string]*big.Int{}
	for k, v := range m {
		if strings.HasPrefix(k, from) {
			o[to+k[len(from):]] = v
		} else {
			o[k] = v
		}
	}
	return o
}

// fill builds a concrete Go value from a solver model, with the naming scheme of ssax.Gen.
func fill(v reflect.Value, path string, m map[string]*big.Int) {
	get := func(n string) uint64 {
		if b, ok := m[n]; ok && b.IsUint64() {
			return b.Uint64()
		}
		return 0
	}
	switch v.Kind() {
	case reflect.Uint64, reflect.Uint, reflect.Uint32, reflect.Uint8:
		v.SetUint(get(path))
	case reflect.Int, reflect.Int64:
		v.SetInt(int64(get(path)))
	case reflect.Bool:
		v.SetBool(get(path) != 0)
	case reflect.String:
		h := fnv.New64a()
		h.Write([]byte(path))
		d := new(big.Int).Mul(new(big.Int).SetUint64(h.Sum64()), big.NewInt(1000003)).String()
		switch fillStyle {
		case "leading-zero":
			d = "0" + d[:8]
		case "hex":
			d = "0x" + d[:12]
		case "underscore":
			d = d[:3] + "_" + d[3:9]
		case "hexdigits":
			d = d[:6] + "a"
		case "huge":
			// a numeral above both BN254 moduli: only its residue modulo the scalar field counts
			b, _ := new(big.Int).SetString(d, 10)
			d = b.Add(b, new(big.Int).Lsh(big.NewInt(1), 254)).String()
		case "negative":
			d = "-" + d
		}
		v.SetString(d)
	case reflect.Struct:
		for i := 0; i < v.NumField(); i++ {
			if v.Field(i).CanSet() {
				fill(v.Field(i), path+"."+v.Type().Field(i).Name, m)
			}
		}
	case reflect.Slice:
		n := int(get(path + ".len"))
		if n > 64 {
			n = 64
		}
		s := reflect.MakeSlice(v.Type(), n, n)
		for i := 0; i < n; i++ {
			fill(s.Index(i), fmt.Sprintf("%s!%d", path, i), m)
		}
		v.Set(s)
	case reflect.Array:
		for i := 0; i < v.Len(); i++ {
			fill(v.Index(i), fmt.Sprintf("%s!%d", path, i), m)
		}
	}
}

// canon renders a value with every number in decimal (frontend.Variable leaves included).
func canon(x any) string {
	var sb strings.Builder
	var walk func(v reflect.Value)
	walk = func(v reflect.Value) {
		switch v.Kind() {
		case reflect.Interface, reflect.Ptr:
			if v.IsNil() {
				sb.WriteString("nil")
				return
			}
			if v.CanInterface() {
				if b, ok := v.Interface().(*big.Int); ok {
					if b == nil {
						sb.WriteString("nil")
					} else {
						sb.WriteString(new(big.Int).Mod(b, R).String())
					}
					return
				}
			}
			walk(v.Elem())
		case reflect.Struct:
			if v.CanInterface() {
				if b, ok := v.Interface().(big.Int); ok {
					sb.WriteString(new(big.Int).Mod(&b, R).String())
					return
				}
			}
			sb.WriteString("{")
			for i := 0; i < v.NumField(); i++ {
				sb.WriteString(v.Type().Field(i).Name + ":")
				walk(v.Field(i))
				sb.WriteString(" ")
			}
			sb.WriteString("}")
		case reflect.Slice, reflect.Array:
			sb.WriteString("[")
			for i := 0; i < v.Len(); i++ {
				walk(v.Index(i))
				sb.WriteString(" ")
			}
			sb.WriteString("]")
		case reflect.Map:
			keys := v.MapKeys()
			sort.Slice(keys, func(i, j int) bool { return keys[i].String() < keys[j].String() })
			sb.WriteString("{")
			for _, k := range keys {
				sb.WriteString(k.String() + ":")
				walk(v.MapIndex(k))
				sb.WriteString(" ")
			}
			sb.WriteString("}")
		case reflect.Uint64, reflect.Uint, reflect.Uint32, reflect.Uint8:
			fmt.Fprint(&sb, v.Uint())
		case reflect.Int, reflect.Int64:
			fmt.Fprint(&sb, v.Int())
		case reflect.Bool:
			fmt.Fprint(&sb, v.Bool())
		case reflect.String:
			fmt.Fprintf(&sb, "%q", v.String())
		default:
			fmt.Fprintf(&sb, "<%s>", v.Kind())
		}
	}
	walk(reflect.ValueOf(x))
	return sb.String()
}
