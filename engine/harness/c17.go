package main

import (
	"fmt"
	"reflect"
	"strings"
	"time"

	"verif/engine/smt"
	"verif/engine/sym"
)

func init() { drivers["C17"] = runC17 }

// C17: every Goldilocks-valued position of the proof must carry a canonical-range fact.
func runC17(r *Run) {
	r.Functions = []string{"verifier.(*VerifierChip).Verify", "verifier.(*VerifierChip).rangeCheckProof", "goldilocks.(*Chip).RangeCheck", "goldilocks.(*Chip).RangeCheckQE", "verifier.(*VerifierCircuit).Define", "verifier.(*CircuitFixed).Define"}
	total := 0
	for _, in := range instancesFor(r, []int{1, 2}, []int{1, 2, 4, 28}, true) {
		for _, wr := range []string{"verifier", "fixed"} {
			if wr == "fixed" && len(in.RawPis) != 16 {
				continue
			}
			w := walkVerifier(in, walkOpts{Wrapper: wr, Cap: capPlain, Field: true, PermGL: true, PermBN: true, NoShape: true})
			if w.Panic != "" || w.Err != nil {
				walkFailed(r, in, wr, w)
				continue
			}
			var pos []*leafInfo
			for _, l := range w.Leaves {
				if strings.HasSuffix(l.Path, ".Limb") && !strings.Contains(l.Path, "PublicInputs") {
					pos = append(pos, l)
				}
			}
			total += len(pos)
			// one query: the range facts the circuit enforces on these atoms (and nothing else --
			// dropping the other constraints only enlarges the accepted set) exclude any value >= p
			em := sym.NewEmitter()
			var ors, names []string
			for _, l := range pos {
				n := em.Ref(l.Atom)
				names = append(names, n)
				ors = append(ors, fmt.Sprintf("(>= %s %s)", n, P))
			}
			// range facts recorded as constraints on input atoms (non-hooked paths)
			for _, c := range w.E.Cons {
				if (c.Kind == sym.CRange || c.Kind == sym.CLeq) && c.A.Op == sym.OpAtom && c.A.Kind == "input" {
					em.Assert(em.Cons(c))
				}
			}
			facts := em.String()
			em.Assert("(or false " + strings.Join(ors, " ") + ")")
			inst, wrp := in, wr
			byName := map[string]*leafInfo{}
			for _, l := range pos {
				byName[l.Atom.Name] = l
			}
			r.Add(&Ob{Name: fmt.Sprintf("canonical[%s/%s]", in.Name, wr), Family: "canonical-encoding", Script: em.String(), Values: names, Site: "canonicity of proof elements",
				Bound: fmt.Sprintf("%d Goldilocks-valued proof positions of %s (%s wrapper), all values in [0,r)", len(pos), in.Name, wr),
				OnFail: func(res smt.Result) *Violation {
					// pick positions with value >= p in the model (one per kind of proof element) and replay:
					// honest proof, that leaf + p
					// the model names one position; ask the solver, per kind of proof element, whether its
					// first position can be >= p as well (the facts are the same script without the goal)
					kinds := map[string]*leafInfo{}
					var order []string
					// the positions the model itself puts at or above p come first, each under its own key
					for _, l := range pos {
						if v, ok := res.Model[l.Atom.Name]; ok && v.Cmp(P) >= 0 && len(order) < 4 {
							k := l.Path
							kinds[k] = l
							order = append(order, k)
						}
					}
					for _, l := range pos {
						k := stripIdx(l.Path) + lastIdx(l.Path)
						if kinds[k] != nil {
							continue
						}
						q := r.pool.Solve(&smt.Query{Script: facts + fmt.Sprintf("(assert (>= %s %s))", em.Ref(l.Atom), P), Solver: "z3", Timeout: 20 * time.Second})
						if q.Status == smt.Sat {
							kinds[k] = l
							order = append(order, k)
						} else {
							kinds[k] = &leafInfo{}
						}
					}
					skipHonest := false
					for i, k := range order {
						if i >= 5 {
							break
						}
						l := kinds[k]
						if l.Atom == nil {
							continue
						}
						// first with the repository's own hint code, then with hint code that does not refuse
						// operands >= p (those refusals are solver-side, not constraints)
						for _, lenient := range []bool{false, true} {
							if !lenient && skipHonest {
								continue
							}
							cr := &circuitReplay{Kind: "circuit", Wrapper: wrp, Instance: inst.Base, K: inst.K, Edits: []edit{{Path: l.Path, Add: P.String()}}, Expect: "accepted", Lenient: lenient}
							acc, msg := runCircuitReplay(cr, r.Repo)
							if !acc {
								if !lenient && strings.Contains(msg, "not in the field") {
									skipHonest = true
								}
								r.Note("replay %s + p (lenient hints: %v) rejected: %s", l.Path, lenient, short(msg, 80))
								continue
							}
							how := "real circuit (test.IsSolved) accepts the honest proof with this element replaced by element + p"
							if lenient {
								how += " when the prover's hint code does not refuse operands >= p"
							}
							return &Violation{Site: "no canonical range check on " + k, What: fmt.Sprintf("proof element %s may be replaced by value + p (non-canonical encoding accepted)", l.Path), Replay: toMap(cr), Outcome: how}
						}
					}
					// Elements that enter a Merkle leaf cannot simply be shifted by p (the leaf hash changes): for
					// those, show the missing check where canonicity is enforced - the real rangeCheckProof run alone
					for i, k := range order {
						if i >= 10 {
							break
						}
						l := kinds[k]
						if l.Atom == nil {
							continue
						}
						pth := strings.TrimPrefix(l.Path, ".ProofWithPis")
						cr := &circuitReplay{Kind: "circuit", Wrapper: wrp, Instance: inst.Base, K: inst.K, Edits: []edit{{Path: pth, Add: P.String()}}, Expect: "accepted", Lenient: true, Only: "rangeCheckProof"}
						if acc, _ := runCircuitReplay(cr, r.Repo); acc {
							return &Violation{Site: "no canonical range check on " + k, What: fmt.Sprintf("proof element %s is not forced into canonical form: no range fact reaches it anywhere in the verifier (solver), and the real rangeCheckProof accepts value + p there", l.Path), Replay: toMap(cr), Outcome: "real verifier.(*VerifierChip).rangeCheckProof (test engine) accepts the proof with this element replaced by element + p; a full forged proof would in addition need a leaf opening consistent with it"}
						}
					}
					return nil
				}})
			r.Sample(map[string]any{"instance": in.Name, "wrapper": wr, "positions": len(pos), "first": pos[0].Path, "last": pos[len(pos)-1].Path})
			r.Discharge()
		}
	}
	c17CommitFlush(r)
	r.Extra["positions_checked"] = total
	r.Bounds["instances"] = "quick: test_circuit and the 97-input circuit restricted to k in {1,2} query rounds; thorough: all five proofs, k in {1,2,4,28}; both wrappers"
	r.Bounds["values"] = "every value in [0,r) for every position simultaneously (covers value + k*p for every k that fits)"
	r.Assumptions = append(r.Assumptions, "a canonical range check is recognised as a call of goldilocks.(*Chip).RangeCheck on the raw input (contract: x < p, established per configuration in C06); other constraints are dropped, which only enlarges the accepted set")
	r.Outside = append(r.Outside, "public inputs (the property lists proof elements only; the wrapper's public inputs are C03)", "BN254 hash values (not Goldilocks elements)")
}

// lastIdx returns the last index of the path (the limb of an extension element), as a suffix.
func lastIdx(p string) string {
	i := strings.LastIndex(p, "[")
	j := strings.LastIndex(p, "]")
	if i < 0 || j < i {
		return ""
	}
	return " (last index " + p[i+1:j] + ")"
}

func stripIdx(p string) string {
	var sb strings.Builder
	in := false
	for _, c := range p {
		if c == '[' {
			in = true
			sb.WriteString("[*")
			continue
		}
		if c == ']' {
			in = false
		}
		if !in {
			sb.WriteRune(c)
		}
	}
	return sb.String()
}


// c17CommitFlush: under the commitment-based range checker a range check only takes effect when the
// chip's deferred checkCollected forwards it. The verifier is walked with that checker and the real
// RangeCheck body; every call of rangeCheckerCheck is counted, and the list that checkCollected is
// about to forward must contain all of them (checks collected on another copy of the chip are lost).
func c17CommitFlush(r *Run) {
	in := loadInstance(r.Repo, "test_circuit").restrict(1)
	calls, flushed := 0, -1
	extra := map[string]hookFn{
		"goldilocks.Chip.rangeCheckerCheck": observe("goldilocks.Chip.rangeCheckerCheck", func(recv any, args []any) { calls++ }),
		"goldilocks.Chip.checkCollected": func(recv any, args []any) []any {
			n := reflect.ValueOf(recv).Elem().FieldByName("rangeCheckCollected").Len()
			if n > flushed {
				flushed = n
			}
			return []any{nil}
		},
	}
	w := walkVerifier(in, walkOpts{Wrapper: "verifier", Cap: capCommit, Field: true, PermGL: true, PermBN: true, NoShape: true, Extra: extra,
		Unhook: []string{"goldilocks.Chip.RangeCheck", "goldilocks.Chip.RangeCheckWithMaxBits"}})
	if w.Panic != "" || w.Err != nil {
		r.Infra("commit-configuration walk failed: %s %v", short(w.Panic, 200), w.Err)
		return
	}
	r.Extra["commit_range_checks_collected"] = calls
	r.Extra["commit_range_checks_forwarded"] = flushed
	if flushed < 0 {
		r.Infra("commit-configuration walk: checkCollected was not run (is the commit checker still selected for a committing builder?)")
		return
	}
	if flushed >= calls {
		return
	}
	// some collected checks never reach gnark: confirm on the real circuit under the commit checker with
	// a non-canonical final-polynomial coefficient (full proof: the commit checker refuses small circuits)
	cr := &circuitReplay{Kind: "circuit", Wrapper: "verifier", Instance: in.Base, K: 0, Expect: "accepted", Commit: true, Lenient: true,
		Edits: []edit{{Path: ".Proof.OpeningProof.FinalPoly.Coeffs[0][0].Limb", Add: P.String()}}}
	what := fmt.Sprintf("under the commitment-based range checker %d range checks are collected but only %d are forwarded by the deferred checkCollected: the others never take effect", calls, flushed)
	if acc, msg := runCircuitReplay(cr, r.Repo); acc {
		r.addViolationWithReplay("range checks not forwarded under the commit checker", what+"; the valid proof with a final-polynomial coefficient + p is accepted", toMap(cr), "real circuit (test.IsSolved, commitment-based checker, hint code that does not refuse operands >= p) accepts the non-canonical encoding")
	} else {
		r.Infra("%s -- but the real circuit rejects final-polynomial coefficient + p (%s)", what, short(msg, 80))
	}
}
