package main

import (
	"crypto/sha256"
	"encoding/hex"
	"encoding/json"
	"fmt"
	"os"
	"path/filepath"
	"sort"
	"strings"
	"sync"
	"time"

	"verif/engine/smt"
)

// ---------------------------------------------------------------- obligations

// Ob is one proof obligation: an SMT script and the answer that means "property holds here".
type Ob struct {
	Name   string
	Family string
	Expect smt.Status // Unsat (validity of the negated property) or Sat (witness / vacuity guard)
	Script string
	Values []string
	Solver string
	// Fallback solvers tried in order when the primary neither says sat nor unsat
	Fallback []string
	TO       time.Duration
	Bound  string
	// Site identifies the obligation for the known-findings file (static call site / condition).
	Site string
	// Guard obligations (vacuity / reachability witnesses) make the run inconclusive when they
	// fail; they are never violations.
	Guard bool
	// OnFail is called with the solver result when the answer is the opposite of Expect. It must
	// replay against the real code and return a description of the reproduced violation, or nil
	// if the counterexample did not reproduce.
	OnFail func(r smt.Result) *Violation
	// OnWitness is called with the model when a Sat-expecting obligation is answered sat: the witness is
	// run on the real code; a non-nil result is a reproduced violation.
	OnWitness func(r smt.Result) *Violation
	// Second opinion solver (thorough tier): must agree.
	Diff string
}

type Violation struct {
	Site    string         `json:"site"`
	What    string         `json:"what"`
	Replay  map[string]any `json:"replay"`
	Outcome string         `json:"outcome"`
	path    string
}

type obResult struct {
	ob     *Ob
	res    smt.Result
	status string // discharged | violation | known | inconclusive
	viol   *Violation
}

type Run struct {
	aborted bool
	ID      string
	Tier    string
	Seed    int64
	Scratch string
	Repo    string
	Verif   string
	t0      time.Time

	pool *smt.Pool
	mu   sync.Mutex
	obs  []*Ob
	done []obResult

	Functions   []string
	Bounds      map[string]any
	Outside     []string
	Assumptions []string
	Stubs       []string
	Notes       []string
	Extra       map[string]any
	samples     []any
	infra       []string // infrastructure failures => inconclusive
	replays     int
	dedup       int
	siteViol    map[string]*Violation
	memo        map[string]smt.Result
	memoHits    []smt.Result
	overBudget  int
	fallbacks   int
	diffs       int
}

func (r *Run) Thorough() bool { return r.Tier == "thorough" }

func (r *Run) Add(ob *Ob) {
	if ob.Expect == "" {
		ob.Expect = smt.Unsat
	}
	r.mu.Lock()
	r.obs = append(r.obs, ob)
	r.mu.Unlock()
}

func (r *Run) Infra(format string, a ...any) {
	r.mu.Lock()
	r.infra = append(r.infra, fmt.Sprintf(format, a...))
	r.mu.Unlock()
}

func (r *Run) Note(format string, a ...any) {
	r.mu.Lock()
	r.Notes = append(r.Notes, fmt.Sprintf(format, a...))
	r.mu.Unlock()
}

func (r *Run) Sample(s any) {
	r.mu.Lock()
	if len(r.samples) < 12 {
		r.samples = append(r.samples, s)
	}
	r.mu.Unlock()
}

// Discharge solves all pending obligations: smallest scripts first, in batches; once a violation
// has been reproduced at a static site, the remaining obligations of that site are not solved
// again (they are counted as the same violation); when the time budget of the tier is used up the
// rest is reported inconclusive.
func (r *Run) Discharge() {
	r.mu.Lock()
	obs := r.obs
	r.obs = nil
	r.mu.Unlock()
	if len(obs) == 0 {
		return
	}
	if d := os.Getenv("VERIF_DUMP"); d != "" {
		os.MkdirAll(d, 0o755)
		for _, ob := range obs {
			os.WriteFile(filepath.Join(d, strings.NewReplacer("/", "_", "[", "_", "]", "_", " ", "_").Replace(ob.Name)+".smt2"), []byte(ob.Script+"\n(check-sat)\n"), 0o644)
		}
	}
	sort.SliceStable(obs, func(i, j int) bool { return len(obs[i].Script) < len(obs[j].Script) })
	batch := r.pool.N * 6
	for start := 0; start < len(obs); start += batch {
		end := start + batch
		if end > len(obs) {
			end = len(obs)
		}
		r.dischargeBatch(obs[start:end])
	}
}

func (r *Run) budget() time.Duration {
	if r.Thorough() {
		return 100 * time.Minute
	}
	return 12 * time.Minute
}

func (r *Run) dischargeBatch(obs []*Ob) {
	var todo []*Ob
	for _, ob := range obs {
		if prev, ok := r.siteViol[ob.Site]; ok && ob.Site != "" && !ob.Guard {
			r.mu.Lock()
			r.done = append(r.done, obResult{ob: ob, res: smt.Result{Status: "skipped", Solver: "-"}, status: "violation", viol: prev})
			r.mu.Unlock()
			continue
		}
		if time.Since(r.t0) > r.budget() {
			r.mu.Lock()
			r.done = append(r.done, obResult{ob: ob, res: smt.Result{Status: "skipped", Solver: "-"}, status: "inconclusive"})
			r.mu.Unlock()
			r.overBudget++
			continue
		}
		todo = append(todo, ob)
	}
	obs = todo
	if len(obs) == 0 {
		return
	}
	qs := make([]*smt.Query, len(obs))
	for i, ob := range obs {
		to := ob.TO
		if to == 0 {
			to = 40 * time.Second
			if r.Thorough() {
				to = 300 * time.Second
			}
		}
		qs[i] = &smt.Query{Name: ob.Name, Script: ob.Script, Values: ob.Values, Solver: ob.Solver, Timeout: to, Expect: ob.Expect}
	}
	// identical scripts are solved once per run
	uniq := map[string]int{}
	var uq []*smt.Query
	which := make([]int, len(qs))
	for i, q := range qs {
		key := q.Solver + "\x00" + strings.Join(q.Values, ",") + "\x00" + q.Script
		if res, ok := r.memo[key]; ok {
			which[i] = -1 - len(r.memoHits)
			r.memoHits = append(r.memoHits, res)
			r.dedup++
			continue
		}
		if j, ok := uniq[key]; ok {
			which[i] = j
			r.dedup++
			continue
		}
		uniq[key] = len(uq)
		which[i] = len(uq)
		uq = append(uq, q)
	}
	ures := r.pool.SolveAll(uq)
	if r.memo == nil {
		r.memo = map[string]smt.Result{}
	}
	for k, j := range uniq {
		if ures[j].Status == smt.Sat || ures[j].Status == smt.Unsat {
			r.memo[k] = ures[j]
		}
	}
	results := make([]smt.Result, len(qs))
	for i := range qs {
		if which[i] < 0 {
			results[i] = r.memoHits[-1-which[i]]
			results[i].Dur = 0
			continue
		}
		results[i] = ures[which[i]]
		if uq[which[i]] != qs[i] {
			results[i].Dur = 0
		}
	}
	r.memoHits = nil
	// portfolio: unresolved obligations go to their fallback solvers
	for round := 0; round < 3; round++ {
		var idx []int
		var fq []*smt.Query
		for i, ob := range obs {
			if results[i].Status != smt.Sat && results[i].Status != smt.Unsat && round < len(ob.Fallback) {
				q2 := *qs[i]
				q2.Solver = ob.Fallback[round]
				idx = append(idx, i)
				fq = append(fq, &q2)
			}
		}
		if len(fq) == 0 {
			break
		}
		fr := r.pool.SolveAll(fq)
		for k, i := range idx {
			r.fallbacks++
			if fr[k].Status == smt.Sat || fr[k].Status == smt.Unsat {
				fr[k].Dur += results[i].Dur
				results[i] = fr[k]
			}
		}
	}
	// second opinions (thorough tier): a bounded sample per run, in parallel, short timeout; a second
	// solver that does not answer in time simply gives no second opinion
	if r.Thorough() {
		var dq []*smt.Query
		var di []int
		for i, ob := range obs {
			if ob.Diff == "" || !(results[i].Status == smt.Sat || results[i].Status == smt.Unsat) || results[i].Dur <= 0 {
				continue
			}
			if r.diffs+len(dq) >= 400 || time.Since(r.t0) > r.budget()/2 {
				break
			}
			q2 := *qs[i]
			q2.Solver = ob.Diff
			q2.Values = nil
			q2.Timeout = 20 * time.Second
			dq = append(dq, &q2)
			di = append(di, i)
		}
		if len(dq) > 0 {
			rs := r.pool.SolveAll(dq)
			r.diffs += len(dq)
			for k, r2 := range rs {
				i := di[k]
				if (r2.Status == smt.Sat || r2.Status == smt.Unsat) && r2.Status != results[i].Status {
					r.Infra("solvers disagree on %s: %s=%s %s=%s", obs[i].Name, results[i].Solver, results[i].Status, r2.Solver, r2.Status)
				}
			}
		}
	}
	for i, ob := range obs {
		res := results[i]
		if os.Getenv("VERIF_VERBOSE") != "" {
			fmt.Fprintf(os.Stderr, "  [%s] %-50s %-8s %6.2fs  %d bytes\n", res.Solver, ob.Name, res.Status, res.Dur.Seconds(), len(ob.Script))
		}
		or := obResult{ob: ob, res: res}
		switch {
		case res.Status == ob.Expect:
			or.status = "discharged"
			if ob.OnWitness != nil && res.Status == smt.Sat {
				if v := ob.OnWitness(res); v != nil {
					r.replays++
					if v.Site == "" {
						v.Site = ob.Site
					}
					or.viol = v
					or.status = "violation"
				}
			}
		case res.Status == smt.Sat || res.Status == smt.Unsat:
			if ob.Guard {
				or.status = "inconclusive"
				r.Infra("guard obligation %s answered %s (expected %s)", ob.Name, res.Status, ob.Expect)
				break
			}
			var v *Violation
			if prev, ok := r.siteViol[ob.Site]; ok && ob.Site != "" {
				v = prev // same static site already reproduced in this run
			} else if ob.OnFail != nil {
				v = ob.OnFail(res)
				r.replays++
				if v != nil && ob.Site != "" {
					if r.siteViol == nil {
						r.siteViol = map[string]*Violation{}
					}
					r.siteViol[ob.Site] = v
				}
			}
			if v != nil && strings.HasPrefix(v.Site, "benign:") {
				// the disagreement was examined on the real code and found not to be one (reason in the note)
				or.status = "discharged"
				if v.What != "" {
					r.Note("%s: %s", ob.Name, v.What)
				}
				if ob.Site != "" {
					delete(r.siteViol, ob.Site)
				}
				break
			}
			if v == nil {
				or.status = "inconclusive"
				r.Infra("obligation %s answered %s (expected %s) but the counterexample did not reproduce on the real code", ob.Name, res.Status, ob.Expect)
			} else {
				if v.Site == "" {
					v.Site = ob.Site
				}
				or.viol = v
				or.status = "violation"
			}
		default:
			or.status = "inconclusive"
			raw := res.Raw
			if len(raw) > 200 {
				raw = raw[:200]
			}
			r.Infra("obligation %s: solver %s said %s after %.1fs %s", ob.Name, res.Solver, res.Status, res.Dur.Seconds(), strings.TrimSpace(raw))
		}
		r.mu.Lock()
		r.done = append(r.done, or)
		r.mu.Unlock()
	}
}

// ---------------------------------------------------------------- known findings

type Finding struct {
	Property string `json:"property"`
	Kind     string `json:"kind"` // known | fixed
	Site     string `json:"site"`
	What     string `json:"what"`
	Commit   string `json:"commit,omitempty"`
}

func loadFindings(verif string) []Finding {
	var fs []Finding
	b, err := os.ReadFile(filepath.Join(verif, "known_findings.json"))
	if err != nil {
		return nil
	}
	var doc struct {
		Findings []Finding `json:"findings"`
	}
	if json.Unmarshal(b, &doc) == nil {
		fs = doc.Findings
	}
	return fs
}

// ---------------------------------------------------------------- finish: evidence + exit code

func short(s string, n int) string {
	if len(s) > n {
		return s[:n] + "…"
	}
	return s
}

func (r *Run) Finish() int { return r.finish(true) }

func (r *Run) finish(discharge bool) int {
	if discharge {
		r.Discharge()
	}
	findings := loadFindings(r.Verif)
	wall := time.Since(r.t0).Seconds()
	nViol := 0
	var violLines, knownLines []string
	seenLine := map[string]bool{}
	fam := map[string]map[string]any{}
	distinct := map[string]bool{}
	discharged, inconcl := 0, 0
	var solverNanos time.Duration
	for i := range r.done {
		d := &r.done[i]
		if d.status == "violation" {
			known := false
			for _, f := range findings {
				if f.Kind == "known" && f.Property == r.ID && f.Site == d.viol.Site {
					known = true
				}
			}
			if known {
				d.status = "known"
				line := fmt.Sprintf("KNOWN-FINDING: property=%s %s: %s", r.ID, d.viol.Site, d.viol.What)
				if !seenLine[line] {
					seenLine[line] = true
					knownLines = append(knownLines, line)
				}
			} else {
				nViol++
				// write replay file
				dir := filepath.Join(r.outDir(), "replays", r.ID)
				os.MkdirAll(dir, 0o755)
				doc := map[string]any{"property": r.ID, "site": d.viol.Site, "what": d.viol.What, "replay": d.viol.Replay, "outcome": d.viol.Outcome}
				b, _ := json.MarshalIndent(doc, "", " ")
				h := sha256.Sum256(b)
				p := filepath.Join(dir, hex.EncodeToString(h[:6])+".json")
				os.WriteFile(p, b, 0o644)
				d.viol.path = p
				line := fmt.Sprintf("VIOLATION property=%s replay=%s", r.ID, p)
				if !seenLine[line] {
					seenLine[line] = true
					violLines = append(violLines, line)
					fmt.Printf("  violated obligation %s at %s: %s\n", d.ob.Name, d.viol.Site, d.viol.What)
				}
			}
		}
		f := fam[d.ob.Family]
		if f == nil {
			f = map[string]any{"obligations": 0, "discharged": 0, "solver_s": 0.0, "max_s": 0.0}
			fam[d.ob.Family] = f
		}
		f["obligations"] = f["obligations"].(int) + 1
		if d.status == "discharged" {
			f["discharged"] = f["discharged"].(int) + 1
			discharged++
		}
		if d.status == "inconclusive" {
			inconcl++
		}
		f["solver_s"] = f["solver_s"].(float64) + d.res.Dur.Seconds()
		if d.res.Dur.Seconds() > f["max_s"].(float64) {
			f["max_s"] = d.res.Dur.Seconds()
		}
		solverNanos += d.res.Dur
		h := sha256.Sum256([]byte(d.ob.Script))
		if strings.Contains(d.ob.Script, "declare-") {
			distinct[hex.EncodeToString(h[:8])] = true
		}
	}
	// samples: a few obligations written out
	var samples []any
	seenFam := map[string]int{}
	for _, d := range r.done {
		if seenFam[d.ob.Family] >= 1 || len(samples) >= 8 {
			continue
		}
		seenFam[d.ob.Family]++
		samples = append(samples, map[string]any{"obligation": d.ob.Name, "family": d.ob.Family, "expect": d.ob.Expect, "answer": d.res.Status, "solver": d.res.Solver, "solver_s": d.res.Dur.Seconds(), "bound": d.ob.Bound, "script_bytes": len(d.ob.Script), "script_head": short(d.ob.Script, 700)})
	}
	samples = append(samples, r.samples...)
	if len(samples) == 0 {
		samples = append(samples, "no obligation was generated")
	}
	sort.Strings(r.Functions)
	cov := map[string]any{
		"evaluations":         len(r.done),
		"distinct_nontrivial": len(distinct),
		"rule":                "one evaluation = one SMT obligation regenerated from /repo's current source and answered by a solver; distinct = different script text; non-trivial = the script declares at least one symbolic variable",
		"samples":             samples,
		"obligations":         len(r.done),
		"discharged":          discharged,
		"inconclusive":        inconcl,
		"replays_run":         r.replays,
		"identical_scripts_reused": r.dedup,
		"second_opinion_queries":   r.diffs,
		"fallback_solver_queries":  r.fallbacks,
		"families":            fam,
		"solver_time_s":       solverNanos.Seconds(),
		"checker_cmd":         fmt.Sprintf("/verif/vcheck run %s --tier %s", r.ID, r.Tier),
		"trusted_base":        []string{"gnark v0.9.1 frontend.API contract as summarised in engine/sym", "z3 4.8.12 / z3 5.1.0 / cvc5 1.0", "engine/sym, engine/smt, engine/ref, the vinstr instrumentation"},
		"functions_encoded":   r.Functions,
		"bounds":              r.Bounds,
		"outside_claim":       r.Outside,
		"stubs":               r.Stubs,
		"notes":               r.Notes,
		"infrastructure":      r.infra,
	}
	for k, v := range r.Extra {
		cov[k] = v
	}
	ev := map[string]any{
		"property_id": r.ID,
		"tier":        r.Tier,
		"seed":        r.Seed,
		"level":       "model_checking",
		"coverage":    cov,
		"assumptions": r.Assumptions,
		"wall_s":      wall,
		"violations":  nViol,
	}
	os.MkdirAll(filepath.Join(r.outDir(), "evidence"), 0o755)
	b, _ := json.MarshalIndent(ev, "", " ")
	os.WriteFile(filepath.Join(r.outDir(), "evidence", r.ID+".json"), b, 0o644)

	for _, l := range knownLines {
		fmt.Println(l)
	}
	for _, l := range violLines {
		fmt.Println(l)
	}
	fmt.Printf("%s %s: %d obligations, %d discharged, %d violations, %d known, %d inconclusive, solver %.1fs, wall %.1fs\n",
		r.ID, r.Tier, len(r.done), discharged, nViol, len(knownLines), inconcl, solverNanos.Seconds(), wall)
	if r.overBudget > 0 {
		r.infra = append(r.infra, fmt.Sprintf("%d obligations not attempted: time budget of the %s tier (%s) used up", r.overBudget, r.Tier, r.budget()))
	}
	for i, m := range r.infra {
		if i < 40 {
			fmt.Printf("INCONCLUSIVE property=%s %s\n", r.ID, short(m, 600))
		}
	}
	if nViol > 0 {
		return 1
	}
	if len(r.infra) > 0 {
		return 2
	}
	return 0
}

// addViolationDirect records a violation that was established by running the real code itself
// (no solver query behind it); the replay re-runs the real circuit on the honest proof.
func (r *Run) addViolationDirect(site, what string, in *instance, wrapper string) {
	cr := &circuitReplay{Kind: "circuit", Wrapper: wrapper, Instance: in.Base, K: in.K, Expect: "rejected"}
	acc, msg := runCircuitReplay(cr, r.Repo)
	if acc {
		r.Infra("%s -- but the real circuit (test engine, bit decomposition) accepts the honest proof: encoding problem", what)
		return
	}
	r.mu.Lock()
	r.done = append(r.done, obResult{ob: &Ob{Name: "honest-evaluation/" + in.Name + "/" + wrapper, Family: "honest-evaluation", Site: site}, res: smt.Result{Status: "concrete", Solver: "-"}, status: "violation",
		viol: &Violation{Site: site, What: what + " (real circuit: " + short(msg, 100) + ")", Replay: toMap(cr), Outcome: "real circuit (test.IsSolved) rejects the unmodified valid proof"}})
	r.mu.Unlock()
}

// addViolationStructural records a violation that is an observation about the real code's
// execution itself (e.g. a sub-verifier is never called, fewer rounds are checked than configured):
// the honest proof is still accepted, and a tampered accepting proof cannot be constructed without
// a forging prover, so there is no accept/reject replay; the artefact is the observation.
func (r *Run) addViolationStructural(site, what string) {
	r.mu.Lock()
	r.done = append(r.done, obResult{ob: &Ob{Name: "structure/" + site, Family: "verifier-structure", Site: site}, res: smt.Result{Status: "concrete", Solver: "-"}, status: "violation",
		viol: &Violation{Site: site, What: what, Replay: map[string]any{"kind": "vc", "observation": what}, Outcome: "observed while executing the real Verify on the symbolic API (re-run the check to re-derive)"}})
	r.mu.Unlock()
}

// addViolationWithReplay records a violation that was observed on the real code (no solver query),
// together with the recipe that reproduces it.
func (r *Run) addViolationWithReplay(site, what string, replay map[string]any, outcome string) {
	r.mu.Lock()
	r.done = append(r.done, obResult{ob: &Ob{Name: "observed/" + site, Family: "real-code-observation", Site: site}, res: smt.Result{Status: "concrete", Solver: "-"}, status: "violation",
		viol: &Violation{Site: site, What: what, Replay: replay, Outcome: outcome}})
	r.mu.Unlock()
}

func (r *Run) overTime() bool { return time.Since(r.t0) > r.budget() }

// outDir is where evidence/ and replays/ are written: VERIF_OUT when set (runs against seeded
// changes), the verif root otherwise.
func (r *Run) outDir() string {
	if o := os.Getenv("VERIF_OUT"); o != "" {
		return o
	}
	return r.Verif
}
