// vharness: property drivers. Built per check against an instrumented scratch copy of the
// repository (see /verif/vcheck); never run against a stale build.
package main

import (
	"runtime"
	"flag"
	"fmt"
	"os"
	"runtime/debug"
	"strconv"
	"time"

	"github.com/consensys/gnark/logger"
	"github.com/rs/zerolog"

	"verif/engine/smt"
)

var drivers = map[string]func(r *Run){}

func main() {
	logger.Set(zerolog.Nop())
	if len(os.Args) < 3 {
		fmt.Fprintln(os.Stderr, "usage: vharness run <ID> [--tier quick|thorough] | vharness replay <path>")
		os.Exit(2)
	}
	cmd, id := os.Args[1], os.Args[2]
	fs := flag.NewFlagSet("vharness", flag.ExitOnError)
	tier := fs.String("tier", os.Getenv("VERIF_TIER"), "quick|thorough")
	scratch := fs.String("scratch", "/var/tmp", "scratch dir")
	repo := fs.String("repo", "/repo", "repository root")
	verif := fs.String("verif", "/verif", "verif root")
	workers := fs.Int("workers", 14, "solver workers")
	fs.Parse(os.Args[3:])
	if *tier == "" {
		*tier = "quick"
	}
	seed := int64(1)
	if s := os.Getenv("VERIF_SEED"); s != "" {
		if v, err := strconv.ParseInt(s, 10, 64); err == nil {
			seed = v
		}
	}
	switch cmd {
	case "run":
		d, ok := drivers[id]
		if !ok {
			fmt.Fprintf(os.Stderr, "unknown property %s\n", id)
			os.Exit(2)
		}
		r := &Run{ID: id, Tier: *tier, Seed: seed, Scratch: *scratch, Repo: *repo, Verif: *verif, t0: time.Now(), pool: smt.NewPool(*workers), Bounds: map[string]any{}, Extra: map[string]any{}}
		// emergency exit: a symbolic blow-up must not end in a kill by the system with nothing reported; what was
		// decided so far is written out (violations found are real; the rest of the run is inconclusive)
		go func() {
			limit := uint64(20) << 30
			if g := os.Getenv("VERIF_MEM_GB"); g != "" {
				if v, err := strconv.ParseUint(g, 10, 64); err == nil && v > 0 {
					limit = v << 30
				}
			}
			var ms runtime.MemStats
			for {
				time.Sleep(700 * time.Millisecond)
				runtime.ReadMemStats(&ms)
				if ms.HeapAlloc > limit {
					fmt.Printf("INCONCLUSIVE property=%s stopped early: the harness reached its memory limit (%d GiB) - results so far follow\n", id, limit>>30)
					code := 2
					func() {
						defer func() { recover() }()
						r.aborted = true
						if c := r.finish(false); c == 1 {
							code = 1
						}
					}()
					os.Exit(code)
				}
			}
		}()
		code := func() (code int) {
			defer func() {
				if e := recover(); e != nil {
					fmt.Printf("INCONCLUSIVE property=%s harness panic: %v\n%s\n", id, e, debug.Stack())
					code = 2
				}
			}()
			d(r)
			return r.Finish()
		}()
		r.pool.Close()
		os.Exit(code)
	case "replay":
		os.Exit(replayFile(id, *repo))
	default:
		fmt.Fprintln(os.Stderr, "unknown command")
		os.Exit(2)
	}
}
