package main

import (
	"fmt"
	"math/big"
	"strings"

	"github.com/consensys/gnark/frontend"
	gl "github.com/wormhole-foundation/example-near-light-client/goldilocks"

	"verif/engine/smt"
	"verif/engine/sym"
)

func init() { drivers["C06"] = runC06 }

// ---- configurations ----------------------------------------------------------------------------

type rcConfig struct {
	Cap   capKind
	Env   bool   // USE_BIT_DECOMPOSITION_RANGE_CHECK=true
	Typer string // "", "r1cs", "scs": implements the repo's FrontendTyper
}

func (c rcConfig) String() string {
	s := string(c.Cap)
	if c.Env {
		s += "+env"
	}
	if c.Typer != "" {
		s += "+" + c.Typer
	}
	return s
}

// actualKind reads which mechanism the chip really selected.
func actualKind(chip *gl.Chip) string {
	switch *fieldOf[gl.RangeCheckerType](chip, "rangeCheckerType") {
	case gl.NATIVE_RANGE_CHECKER:
		return "native"
	case gl.COMMIT_RANGE_CHECKER:
		return "commit"
	case gl.BIT_DECOMP_RANGE_CHECKER:
		return "bitdecomp"
	}
	return "unknown"
}

// replayCfg names the real-builder configuration that corresponds to this symbolic one.
func (c rcConfig) replayCfg() string {
	switch {
	case c.Cap == capNative && !c.Env:
		return "native-r1cs"
	case c.Cap == capNative && c.Env:
		return "native-r1cs-env"
	case c.Cap == capCommit && !c.Env && c.Typer == "scs":
		return "commit-scs"
	case c.Cap == capCommit && !c.Env:
		return "commit-r1cs"
	}
	return "bitdecomp-r1cs"
}

// expected dispatch of goldilocks.New, derived from the documented selection rule
func (c rcConfig) kind() string {
	if c.Env || c.Cap == capPlain {
		return "bitdecomp"
	}
	return string(c.Cap)
}

type commitR1CS struct{ *sym.CommitAPI }

func (commitR1CS) FrontendType() gl.Type { return gl.R1CS }

type commitSCS struct{ *sym.CommitAPI }

func (commitSCS) FrontendType() gl.Type { return gl.SCS }

func (c rcConfig) newAPI() frontend.API {
	setBitDecompEnv(c.Env)
	api := newAPI(c.Cap)
	if c.Cap == capCommit {
		base := api.(*sym.CommitAPI)
		switch c.Typer {
		case "r1cs":
			w := &commitR1CS{base}
			cur.Self = w
			api = w
		case "scs":
			w := &commitSCS{base}
			cur.Self = w
			api = w
		}
		installLookupSummary(cur)
	}
	return api
}

// installLookupSummary idealises gnark's log-derivative lookup argument: when the count hint is
// requested, every query must be a table entry. The table must be the constants 0..2^k-1.
func installLookupSummary(e *sym.Ctx) {
	e.OnHint("logderivarg.countHint", func(h *sym.HintRec) {
		if len(h.In) < 2 || !h.In[0].IsConst() || !h.In[1].IsConst() {
			panic("lookup summary: unexpected count hint layout")
		}
		T := int(h.In[0].C.Int64())
		if h.In[1].C.Int64() != 1 {
			panic("lookup summary: multi-column table not expected")
		}
		k := 0
		for (1 << k) < T {
			k++
		}
		if 1<<k != T {
			panic("lookup summary: table size is not a power of two")
		}
		for i := 0; i < T; i++ {
			t := h.In[2+i]
			if !t.IsConst() || t.C.Cmp(big.NewInt(int64(i))) != 0 {
				panic("lookup summary: table is not 0..2^k-1")
			}
		}
		for _, q := range h.In[2+T:] {
			e.AddRangeFact(q, k)
		}
		for _, o := range h.Out {
			e.Taint(o)
		}
		e.KV("lookup_table_bits", k)
		e.KV("lookup_queries", len(h.In)-2-T)
	})
}

// commitPad: number of further 32-bit checks that make the circuit large enough for gnark's commitment-based
// checker to settle on 16-bit limbs (a variable: one lemma is repeated at a size where it does not)
var commitPad = 70000

// padRefusalOK: at this size a refusal at definition time is an acceptable outcome (the repository
// refuses circuits for which gnark would not pick 16-bit limbs)
var padRefusalOK bool

// ---- slicing ------------------------------------------------------------------------------------

// components partitions the atoms by "occur in a common constraint"; it returns the
// representative lookup and, per constraint, its component (nil for constant constraints).
func components(e *sym.Ctx) (func(*sym.Term) *sym.Term, []*sym.Term) {
	parent := map[*sym.Term]*sym.Term{}
	var find func(t *sym.Term) *sym.Term
	find = func(t *sym.Term) *sym.Term {
		for {
			p, ok := parent[t]
			if !ok || p == t {
				return t
			}
			if pp, ok := parent[p]; ok {
				parent[t] = pp
			}
			t = p
		}
	}
	first := map[*sym.Term]*sym.Term{} // some atom below a term (nil if none); all atoms below are unioned
	var visit func(t *sym.Term) *sym.Term
	visit = func(t *sym.Term) *sym.Term {
		if a, ok := first[t]; ok {
			return a
		}
		var a *sym.Term
		if t.Op == sym.OpAtom {
			a = t
		} else {
			for _, k := range t.Args {
				b := visit(k)
				if b == nil {
					continue
				}
				if a == nil {
					a = b
				} else if ra, rb := find(a), find(b); ra != rb {
					parent[ra] = rb
				}
			}
		}
		first[t] = a
		return a
	}
	reps := make([]*sym.Term, len(e.Cons))
	for i, c := range e.Cons {
		a := visit(c.A)
		if c.B != nil {
			b := visit(c.B)
			if a == nil {
				a = b
			} else if b != nil {
				if ra, rb := find(a), find(b); ra != rb {
					parent[ra] = rb
				}
			}
		}
		reps[i] = a
	}
	for i := range reps {
		if reps[i] != nil {
			reps[i] = find(reps[i])
		}
	}
	return find, reps
}

// coneCons returns the constraints connected (through shared atoms) to the given root atom.
func coneCons(e *sym.Ctx, root *sym.Term) []sym.Constraint {
	return coneConsMulti(e, []*sym.Term{root})[0]
}

// coneConsMulti slices once for many roots.
func coneConsMulti(e *sym.Ctx, roots []*sym.Term) [][]sym.Constraint {
	out := make([][]sym.Constraint, len(roots))
	comp, consComp := components(e)
	idx := map[*sym.Term][]int{}
	for i, r := range roots {
		c := comp(r)
		idx[c] = append(idx[c], i)
	}
	for ci, c := range e.Cons {
		k := consComp[ci]
		if k == nil {
			for i := range out {
				out[i] = append(out[i], c)
			}
			continue
		}
		for _, i := range idx[k] {
			out[i] = append(out[i], c)
		}
	}
	return out
}

func conj(em *sym.Emitter, cs []sym.Constraint) string {
	if len(cs) == 0 {
		return "true"
	}
	parts := make([]string, len(cs))
	for i, c := range cs {
		parts[i] = em.Cons(c)
	}
	return "(and " + strings.Join(parts, "\n  ") + ")"
}

// hintsOfCone restricts honest hint equalities to hints whose outputs occur in the emitted cone.
func honestHintsFor(em *sym.Emitter, e *sym.Ctx, used map[*sym.Term]bool) error {
	sub := &sym.Ctx{}
	for _, h := range e.Hints {
		keep := false
		for _, o := range h.Out {
			if used[o] {
				keep = true
			}
		}
		if keep {
			sub.Hints = append(sub.Hints, h)
		}
	}
	return honestHints(em, sub)
}

// ---- the lemma ---------------------------------------------------------------------------------

type rangeItem struct {
	name   string
	bound  *big.Int
	gadget string
	n      int
	body   func(chip *gl.Chip, x gl.Variable)
	// completeness: "direct" (honest hint values written as div/mod terms), "step" (one-step
	// lemma from the item for width n-step, see stepLemma) or "" (soundness only here)
	compl string
	step  int
}

// forgetChips empties the repository's global chip cache (it would keep every context alive).
func forgetChips() {
	m := pvar[map[frontend.API]*gl.Chip]("goldilocks.poseidonChips")
	for k := range *m {
		delete(*m, k)
	}
}

// rangeLemmas runs every item's body (which must constrain its raw input atom x) in ONE circuit
// under cfg and adds, per item, the obligations accepted <=> 0 <= x < bound. The constraints of
// different items are separated by cone-of-influence slicing (shared atoms).
// padFirst: in the commit configuration, put the padding checks between the first and the remaining
// items instead of after all of them.
var padFirst bool

func rangeLemmas(r *Run, cfg rcConfig, items []rangeItem) {
	api := cfg.newAPI()
	e := cur
	defer forgetChips()
	chip := newChip(api)
	kind := actualKind(chip)
	xs := make([]*sym.Term, len(items))
	addPad := func() {
		pad := inAtom("pad", sym.Rm1)
		for i := 0; i < commitPad; i++ {
			chip.RangeCheckWithMaxBits(gl.NewVariable(pad), 32)
		}
	}
	for i, it := range items {
		if kind == "commit" && padFirst && i == 1 {
			addPad() // after the first item, before the rest: item 0 is collected first, the last item last
		}
		xs[i] = inAtom(fmt.Sprintf("x%d", i), sym.Rm1)
		it.body(chip, gl.NewVariable(xs[i]))
	}
	if kind == "commit" && !padFirst {
		addPad()
	}
	var derr error
	if pm := catchPanic(func() { derr = e.RunDeferred() }); pm != "" || derr != nil {
		// the circuit cannot be defined under this configuration: confirm with the real builder on the
		// first gadget (an in-range value must be accepted, so a refusal at compile time is the violation)
		msg := pm
		if msg == "" {
			msg = derr.Error()
		}
		if padRefusalOK {
			r.Sample(map[string]any{"config": cfg.String(), "collected_checks": commitPad + len(items), "refused_at_definition": short(msg, 100)})
			return
		}
		g := &gadgetReplay{Kind: "gadget", Gadget: items[0].gadget, N: replayN(items[0].gadget, 8), Cfg: cfg.replayCfg(), In: []string{"1"}, Expect: "rejected"}
		if acc, rmsg := runGadgetReplay(g); !acc && strings.Contains(rmsg, "compile") {
			r.addViolationWithReplay("range checker configuration "+cfg.String()+" refuses every circuit", fmt.Sprintf("under the %s configuration the deferred part of the circuit definition fails (%s): no circuit can be built, so valid proofs cannot be accepted under this configuration", cfg, short(msg, 100)), toMap(g), "real builder: "+short(rmsg, 120))
		} else {
			r.Infra("cfg %s: deferred callback failed: %s (real builder: accepted=%v %s)", cfg, short(msg, 100), acc, short(rmsg, 80))
		}
		return
	}
	e.Refine()
	cones := coneConsMulti(e, xs)
	for i, it := range items {
		it := it
		x := xs[i]
		cs := cones[i]
		name, bound, gadget, n := it.name, it.bound, it.gadget, it.n
		site := fmt.Sprintf("%s cfg=%s", gadget, kind)
		bnd := fmt.Sprintf("cfg=%s n=%d all x in [0,r)", cfg, n)

		// (=>) accepted implies in range
		em := sym.NewEmitter()
		em.Refined = true
		c1 := conj(em, cs)
		xn := em.Ref(x)
		em.Assert(c1)
		em.Assert(fmt.Sprintf("(not (< %s %s))", xn, bound))
		cfgc := cfg
		seen := em.AtomsSeen
		r.Add(&Ob{Name: name + "/sound", Family: "range-soundness", Script: em.String(), Values: sym.SortedAtomNames(seen), Bound: bnd, Site: site, Diff: "cvc5",
			OnFail: func(res smt.Result) *Violation {
				xv := res.Model[x.Name]
				if xv == nil {
					return nil
				}
				g := &gadgetReplay{Kind: "gadget", Gadget: gadget, N: replayN(gadget, n), In: []string{xv.String()}, Expect: "accepted", Overrides: overridesFromModel(e, res.Model, seen)}
				g.Cfg = cfgc.replayCfg()
				acc, msg := runGadgetReplay(g)
				if !acc {
					r.Note("replay of %s not accepted: %s", name, msg)
					return nil
				}
				return &Violation{What: fmt.Sprintf("%s(x, %d) under the %s configuration (%s) accepts x = %s, which is outside [0, %s)", gadget, n, kind, cfgc, xv, bound), Replay: toMap(g), Outcome: "real constraint system (gnark r1cs builder + solver) satisfied"}
			}})

		// (<=) in range implies that satisfying prover values exist
		switch it.compl {
		case "direct":
			em2 := sym.NewEmitter()
			em2.Refined = true
			c2 := conj(em2, cs)
			xn2 := em2.Ref(x)
			used := map[*sym.Term]bool{}
			for _, a := range em2.AtomsSeen {
				used[a] = true
			}
			if err := honestHintsFor(em2, e, used); err != nil {
				r.Infra("%s: %v", name, err)
				continue
			}
			em2.Assert(fmt.Sprintf("(< %s %s)", xn2, bound))
			em2.Assert("(not " + c2 + ")")
			r.Add(&Ob{Name: name + "/complete", Family: "range-completeness", Script: em2.String(), Values: []string{x.Name}, Bound: bnd, Site: site,
				OnFail: func(res smt.Result) *Violation { return completenessViolation(r, res, x.Name, gadget, n, cfgc, name) }})
		case "step":
			// predecessor: the item of the same gadget with width n-step
			pi := -1
			for k, o := range items {
				if o.gadget == gadget && o.n == n-it.step {
					pi = k
				}
			}
			if pi < 0 {
				r.Infra("%s: no predecessor width %d for the step lemma", name, n-it.step)
				continue
			}
			hx, hp := hintWithInput(e, x), hintWithInput(e, xs[pi])
			if hx == nil || hp == nil || len(hx.Out) != len(hp.Out)+1 {
				r.Infra("%s: step lemma does not apply (digit hints not found or digit counts %v/%v)", name, hx != nil, hp != nil)
				continue
			}
			em2 := sym.NewEmitter()
			em2.Refined = true
			cN := conj(em2, cs)
			cP := conj(em2, cones[pi])
			xn2, xp := em2.Ref(x), em2.Ref(xs[pi])
			B := pow2(it.step)
			em2.Assert(fmt.Sprintf("(< %s %s)", xn2, bound))
			em2.Assert(fmt.Sprintf("(= %s (div %s %s))", xp, xn2, B))
			em2.Assert(cP)
			em2.Assert(fmt.Sprintf("(= %s (mod %s %s))", em2.Ref(hx.Out[0]), xn2, B))
			for k := range hp.Out {
				em2.Assert(fmt.Sprintf("(= %s %s)", em2.Ref(hx.Out[k+1]), em2.Ref(hp.Out[k])))
			}
			em2.Assert("(not " + cN + ")")
			r.Add(&Ob{Name: name + "/complete-step", Family: "range-completeness-step", Script: em2.String(), Values: []string{x.Name}, Bound: bnd + fmt.Sprintf("; induction step from width %d (digit base 2^%d)", n-it.step, it.step), Site: site,
				OnFail: func(res smt.Result) *Violation { return completenessViolation(r, res, x.Name, gadget, n, cfgc, name) }})
		}

		// vacuity guard: the constraints are satisfiable at all
		em3 := sym.NewEmitter()
		em3.Refined = true
		em3.Assert(conj(em3, cs))
		r.Add(&Ob{Name: name + "/reach", Family: "vacuity-guard", Expect: smt.Sat, Guard: true, Script: em3.String(), Bound: bnd})
	}
}

// hintWithInput finds the hint call whose last input is the atom x (digit decomposition of x).
func hintWithInput(e *sym.Ctx, x *sym.Term) *sym.HintRec {
	for i := range e.Hints {
		h := &e.Hints[i]
		if len(h.In) > 0 && h.In[len(h.In)-1] == x {
			return h
		}
	}
	return nil
}

// completenessViolation replays "an in-range value is rejected" on the real builder.
func completenessViolation(r *Run, res smt.Result, xname, gadget string, n int, cfg rcConfig, name string) *Violation {
	xv := res.Model[xname]
	if xv == nil {
		return nil
	}
	g := &gadgetReplay{Kind: "gadget", Gadget: gadget, N: replayN(gadget, n), In: []string{xv.String()}, Expect: "rejected"}
	g.Cfg = cfg.replayCfg()
	acc, msg := runGadgetReplay(g)
	if acc {
		r.Note("replay of %s: value accepted by the real system", name)
		return nil
	}
	return &Violation{What: fmt.Sprintf("%s(x, %d) under configuration %s rejects the in-range value x = %s (%s)", gadget, n, cfg, xv, msg), Replay: toMap(g), Outcome: "real constraint system (gnark r1cs builder + solver) not satisfied by the honest prover"}
}

// replayN: the LeadingZeros gadget is parameterised by the difficulty, the lemma by the width.
func replayN(gadget string, n int) uint64 {
	if gadget == "LeadingZeros" {
		return uint64(64 - n)
	}
	return uint64(n)
}

func toMap(v any) map[string]any {
	b, _ := jsonMarshal(v)
	var m map[string]any
	jsonUnmarshal(b, &m)
	return m
}

func runC06(r *Run) {
	r.Functions = []string{"goldilocks.New", "goldilocks.gnarkRangeCheckerSelector", "goldilocks.(*Chip).rangeCheckerCheck", "goldilocks.(*Chip).RangeCheck", "goldilocks.(*Chip).RangeCheckWithMaxBits", "goldilocks.(*Chip).checkCollected", "goldilocks.getOptimalBasewidth", "goldilocks.bitDecompChecker.Check", "gnark std/math/bits.ToBinary", "gnark std/rangecheck.(*commitChecker).{Check,commit}"}
	clearHooks()
	configs := []rcConfig{
		{capPlain, false, ""}, {capPlain, true, ""},
		{capNative, false, ""}, {capNative, true, ""},
		{capCommit, false, ""}, {capCommit, true, ""}, {capCommit, false, "r1cs"}, {capCommit, false, "scs"},
	}
	// claimed widths; the completeness chains need every width (bit decomposition) / every
	// multiple of 16 (commit) below the largest one, so those are included in both tiers
	var widths []int
	for n := 1; n <= 64; n++ {
		widths = append(widths, n)
	}
	for n := 65; n <= 192; n++ {
		if r.Thorough() || n%16 == 0 || true {
			widths = append(widths, n)
		}
	}
	r.Bounds["widths"] = widths
	r.Bounds["configurations"] = fmt.Sprint(configs)
	r.Bounds["values"] = "every x in [0, r) (symbolic)"
	panics := 0
	for _, cfg := range configs {
		// which mechanism does the chip select here? (informational: any mechanism is fine as
		// long as it is exact; the lemma form follows the real selection)
		kind := ""
		func() {
			api := cfg.newAPI()
			defer forgetChips()
			kind = actualKind(newChip(api))
		}()
		if kind != cfg.kind() {
			r.Note("cfg %s selects the %s mechanism, the documented rule gives %s", cfg, kind, cfg.kind())
		}
		var items []rangeItem
		for _, n := range widths {
			n := n
			name := fmt.Sprintf("rangeN[%s,n=%d]", cfg, n)
			it := rangeItem{name: name, bound: pow2(n), gadget: "RangeN", n: n, body: func(chip *gl.Chip, x gl.Variable) { chip.RangeCheckWithMaxBits(x, uint64(n)) }}
			switch kind {
			case "native":
				it.compl = "direct"
			case "bitdecomp":
				it.compl, it.step = "step", 1
				if n <= 4 {
					it.compl = "direct"
				}
			case "commit":
				it.compl, it.step = "step", 16
				if n <= 32 {
					it.compl = "direct"
				}
			}
			if kind == "commit" && n%16 != 0 {
				// misaligned widths must be refused at definition time
				msg := catchPanic(func() {
					api := cfg.newAPI()
					defer forgetChips()
					chip := newChip(api)
					x := inAtom("x", sym.Rm1)
					chip.RangeCheckWithMaxBits(gl.NewVariable(x), uint64(n))
					pad := inAtom("pad", sym.Rm1)
					for i := 0; i < commitPad; i++ {
						chip.RangeCheckWithMaxBits(gl.NewVariable(pad), 32)
					}
					// only the repository's own deferred callback matters for the refusal
					if err := cur.RunDeferredN(1); err != nil {
						panic(err)
					}
				})
				if msg != "" {
					panics++
					r.Sample(map[string]any{"config": cfg.String(), "n": n, "refused_at_definition": msg})
					continue
				}
				// not refused: then it has to be exact
			}
			items = append(items, it)
		}
		// un-layered Goldilocks check: soundness direction only (completeness is shown in layered form below)
		items = append(items, rangeItem{name: fmt.Sprintf("rangeGL[%s]", cfg), bound: P, gadget: "RangeCheck", body: func(chip *gl.Chip, x gl.Variable) { chip.RangeCheck(x) }})
		rangeLemmas(r, cfg, items)
		r.Discharge()
		if kind == "commit" {
			// the same mechanism with the checks under test collected LAST (padding first): the deferred
			// callback must enforce every collected check, the first and the last one included
			padFirst = true
			rangeLemmas(r, cfg, []rangeItem{
				{name: fmt.Sprintf("rangeN[%s,n=32,collected first]", cfg), bound: pow2(32), gadget: "RangeN", n: 32, compl: "direct", body: func(chip *gl.Chip, x gl.Variable) { chip.RangeCheckWithMaxBits(x, 32) }},
				{name: fmt.Sprintf("rangeN[%s,n=16,collected last]", cfg), bound: pow2(16), gadget: "RangeN", n: 16, compl: "direct", body: func(chip *gl.Chip, x gl.Variable) { chip.RangeCheckWithMaxBits(x, 16) }},
			})
			padFirst = false
			// a mid-sized circuit (about 55000 collected checks): gnark's cost model does not pick 16-bit limbs
			// there. The repository must either refuse to build (it does: "nbBits should be 16") or be exact -
			// its emulation of gnark's choice must not say 16 where gnark uses narrower limbs
			// (R1CS only: the symbolic commit API reaches gnark's cost model through the same fallback as a real
			// R1CS builder; for SCS its choice is not the one a real SCS builder would make at this size)
			if !strings.Contains(cfg.String(), "scs") {
				commitPad, padRefusalOK = 55000, true
				rangeLemmas(r, cfg, []rangeItem{
					{name: fmt.Sprintf("rangeN[%s,n=32,mid-sized circuit]", cfg), bound: pow2(32), gadget: "RangeN", n: 32, body: func(chip *gl.Chip, x gl.Variable) { chip.RangeCheckWithMaxBits(x, 32) }},
				})
				r.Discharge() // replays of these obligations must run with this padding
				commitPad, padRefusalOK = 70000, false
			}
			r.Discharge()
		}
	}
	// layered form used by every other check: RangeCheck with the n-bit checks replaced by facts
	setHooks(factHooksL0)
	rangeLemmas(r, rcConfig{capPlain, false, ""}, []rangeItem{{name: "rangeGL[layered]", bound: P, gadget: "RangeCheck", compl: "direct", body: func(chip *gl.Chip, x gl.Variable) { chip.RangeCheck(x) }}})
	clearHooks()
	r.Extra["definition_time_refusals"] = panics
	r.Assumptions = append(r.Assumptions,
		"gnark's log-derivative lookup argument (commit configuration) is idealised: every query limb is a table entry; the table is read from the hint inputs and must be 0..2^k-1",
		"completeness is shown for the honest hint functions written as SMT div/mod terms",
		"a builder 'that range-checks natively' is modelled by frontend.Rangechecker.Check recording 0 <= v < 2^bits")
	r.Outside = append(r.Outside, "soundness of the lookup argument and of the Groth16/PLONK back ends", "widths other than the listed ones")
}
