package main

import (
	"fmt"
	"math/big"
	"os"
	"path/filepath"
	"strings"

	"github.com/consensys/gnark/frontend"
	"github.com/consensys/gnark/test"
	"github.com/wormhole-foundation/example-near-light-client/fri"
	gl "github.com/wormhole-foundation/example-near-light-client/goldilocks"
	"github.com/wormhole-foundation/example-near-light-client/types"
	"github.com/wormhole-foundation/example-near-light-client/variables"

	"verif/engine/ref"
	"verif/engine/smt"
	"verif/engine/sym"
)

func init() { drivers["C12"] = runC12 }

type merkleFn = func(*fri.Chip, []gl.Variable, []frontend.Variable, []frontend.Variable, variables.FriMerkleCap, *variables.FriMerkleProof)

// forced0 reports whether a boolean constraint on exactly this variable was recorded since index from.
func forced0(e *sym.Ctx, v frontend.Variable, from int) bool {
	t := e.K(v)
	for _, cn := range e.Cons[from:] {
		if cn.Kind == sym.CBool && cn.A == t {
			return true
		}
	}
	return false
}

func merkleImpl() merkleFn { return fn[merkleFn]("fri.Chip.verifyMerkleProofToCapWithCapIndex") }

// merkleCircuit: real-engine replay of one Merkle opening.
type merkleCircuit struct {
	Leaf     []frontend.Variable
	Bits     []frontend.Variable
	CapBits  []frontend.Variable
	Cap      []frontend.Variable
	Siblings []frontend.Variable
}

var merkleCommon *types.CommonCircuitData

func (c *merkleCircuit) Define(api frontend.API) error {
	cm := *merkleCommon
	fc := fri.NewChip(api, &cm, &cm.FriParams)
	leaf := make([]gl.Variable, len(c.Leaf))
	for i := range leaf {
		leaf[i] = gl.NewVariable(c.Leaf[i])
	}
	merkleImpl()(fc, leaf, c.Bits, c.CapBits, c.Cap, &variables.FriMerkleProof{Siblings: c.Siblings})
	return nil
}

// merkleReplay builds an honest opening with the native reference hash, then checks that the real
// gadget accepts it and rejects the three standard corruptions. Returns a description of the first
// disagreement ("" if the real code behaves like the reference).
func merkleReplay(r *Run, kc *ref.BN128Consts, width, nsib int, seed int64, zeroSib ...int) string {
	clearHooks()
	os.Setenv("USE_BIT_DECOMPOSITION_RANGE_CHECK", "true")
	defer os.Unsetenv("USE_BIT_DECOMPOSITION_RANGE_CHECK")
	rb := ref.NewB()
	rnd := func(tag string, i int, m *big.Int) *big.Int {
		return ref.UFEval(fmt.Sprintf("rnd-%s-%d", tag, seed), i, m.Cmp(P) > 0, nil)
	}
	leaf := make([]*big.Int, width)
	lref := make([]*ref.N, width)
	for i := range leaf {
		leaf[i] = rnd("leaf", i, P)
		lref[i] = rb.Const(leaf[i])
	}
	sib := make([]*big.Int, nsib)
	sref := make([]*ref.N, nsib)
	bits := make([]*big.Int, nsib)
	bref := make([]*ref.N, nsib)
	for i := range sib {
		sib[i] = rnd("sib", i, R)
		for _, z := range zeroSib {
			// value profile taken from the solver's counterexample: this sibling is 0
			if z == i {
				sib[i] = new(big.Int)
			}
		}
		sref[i] = rb.ConstR(sib[i])
		bits[i] = new(big.Int).And(rnd("bit", i, P), big.NewInt(1))
		bref[i] = rb.Const(bits[i])
	}
	root := ref.Eval(rb.MerkleFold(rb.BNPermConcrete(kc), lref, bref, sref), nil, map[*ref.N]*big.Int{})
	capIdx := 0
	mk := func(mut string) (*merkleCircuit, *merkleCircuit) {
		w := &merkleCircuit{}
		for _, v := range leaf {
			w.Leaf = append(w.Leaf, new(big.Int).Set(v))
		}
		for i := range sib {
			w.Siblings = append(w.Siblings, new(big.Int).Set(sib[i]))
			w.Bits = append(w.Bits, new(big.Int).Set(bits[i]))
		}
		for j := 0; j < 4; j++ {
			w.CapBits = append(w.CapBits, (capIdx>>j)&1)
		}
		for i := 0; i < 16; i++ {
			w.Cap = append(w.Cap, rnd("capentry", i, R))
		}
		w.Cap[capIdx] = root
		switch mut {
		case "wrong-slot":
			w.Cap[capIdx], w.Cap[(capIdx+1)%16] = w.Cap[(capIdx+1)%16], w.Cap[capIdx]
		case "flip-bit":
			if nsib > 0 {
				w.Bits[0] = new(big.Int).Xor(bits[0], big.NewInt(1))
			} else {
				w.CapBits[0] = 1 - ((capIdx >> 0) & 1)
			}
		case "leaf+1":
			w.Leaf[width-1] = new(big.Int).Mod(new(big.Int).Add(leaf[width-1], big.NewInt(1)), P)
		case "forged-bit":
			// another leaf (digest x) with a sibling L+R-x and the field element (L-x)/(L+R-2x) in the place of
			// the first index bit: under any arithmetic left/right selection the two children are again the
			// committed ones (L, R); only a gadget that forces the bit to be 0 or 1 refuses it
			w.Leaf[width-1] = new(big.Int).Mod(new(big.Int).Add(leaf[width-1], big.NewInt(1)), P)
			l2 := append([]*ref.N{}, lref[:width-1]...)
			l2 = append(l2, rb.Const(w.Leaf[width-1].(*big.Int)))
			memo := map[*ref.N]*big.Int{}
			x := ref.Eval(rb.MerkleFold(rb.BNPermConcrete(kc), l2, nil, nil), nil, memo)
			d := ref.Eval(rb.MerkleFold(rb.BNPermConcrete(kc), lref, nil, nil), nil, memo)
			L, Rr := d, sib[0]
			if bits[0].Sign() != 0 {
				L, Rr = sib[0], d
			}
			sum := new(big.Int).Add(L, Rr)
			w.Siblings[0] = new(big.Int).Mod(new(big.Int).Sub(sum, x), R)
			den := new(big.Int).Mod(new(big.Int).Sub(sum, new(big.Int).Lsh(x, 1)), R)
			num := new(big.Int).Mod(new(big.Int).Sub(L, x), R)
			w.Bits[0] = num.Mul(num, den.ModInverse(den, R)).Mod(num, R)
		}
		c := &merkleCircuit{Leaf: make([]frontend.Variable, width), Bits: make([]frontend.Variable, nsib), CapBits: make([]frontend.Variable, 4), Cap: make([]frontend.Variable, 16), Siblings: make([]frontend.Variable, nsib)}
		return c, w
	}
	// every cap slot in turn (a lookup that leaves some slots unbacked shows only there)
	first := int(rnd("cap", 0, P).Uint64() % 16)
	for k := 0; k < 16; k++ {
		capIdx = (first + k) % 16
		muts := []string{"", "wrong-slot", "flip-bit", "leaf+1"}
		if nsib > 0 && k == 0 {
			muts = append(muts, "forged-bit")
		}
		for _, mut := range muts {
			c, w := mk(mut)
			var err error
			pm := catchPanic(func() { quiet(func() { err = test.IsSolved(c, w, R) }) })
			forgetChips()
			if pm != "" {
				return ""
			}
			accepted := err == nil
			if mut == "" && !accepted {
				return fmt.Sprintf("an honest opening (leaf width %d, %d siblings, cap slot %d) is rejected: %s", width, nsib, capIdx, short(err.Error(), 120))
			}
			if mut != "" && accepted {
				return fmt.Sprintf("a corrupted opening (%s; leaf width %d, %d siblings, cap slot %d) is accepted", mut, width, nsib, capIdx)
			}
		}
	}
	return ""
}

// merkleSibAtom reports whether the model key names the input atom of sibling i.
func merkleSibAtom(key string, i int) bool {
	tag := fmt.Sprintf("sib%d", i)
	j := strings.Index(key, tag)
	if j < 0 {
		return false
	}
	rest := key[j+len(tag):]
	return rest == "" || rest[0] < '0' || rest[0] > '9'
}

func runC12(r *Run) {
	r.Functions = []string{"fri.(*Chip).verifyMerkleProofToCapWithCapIndex", "fri.(*Chip).verifyInitialProof", "fri.(*Chip).verifyQueryRound (index-bit slicing for every tree of the round)", "poseidon.(*BN254Chip).HashOrNoop / TwoToOne framing (permutation uninterpreted)"}
	kc, err := ref.LoadBN128Consts(filepath.Join(r.Repo, "crypto/plonky2_bn128/src/poseidon_bn128_constants.rs"))
	if err != nil {
		r.Infra("cannot read the Rust reference constants: %v", err)
		return
	}
	base := loadInstance(r.Repo, "test_circuit")
	merkleCommon = &base.Common
	widths := []int{1, 3, 4, 10, 85}
	sibs := []int{0, 1, 2, 8}
	if r.Thorough() {
		widths = []int{1, 2, 3, 4, 9, 10, 32, 85, 135, 140}
		sibs = []int{0, 1, 2, 3, 4, 5, 6, 7, 8, 11}
	}
	hook := map[string]hookFn{"poseidon.BN254Chip.Poseidon": hookPermBN}
	var stats []any
	for _, wd := range widths {
		for _, ns := range sibs {
			wd, ns := wd, ns
			name := fmt.Sprintf("merkle[width=%d,siblings=%d]", wd, ns)
			var extra []string
			unforced := 0
			c := fieldCase{name: name, bigMod: true, termCuts: true, bound: fmt.Sprintf("leaf of %d canonical elements, %d siblings, all index bits / cap bits in {0,1}, 16 cap entries, all values symbolic; permutation uninterpreted", wd, ns), build: func(fc *fctx) ([]frontend.Variable, []*ref.N) {
				cm := base.Common
				chip := fri.NewChip(fc.api, &cm, &cm.FriParams)
				var leaf []gl.Variable
				var rleaf []*ref.N
				for i := 0; i < wd; i++ {
					v, rv := fc.glIn(fmt.Sprintf("leaf%d", i))
					leaf = append(leaf, v)
					rleaf = append(rleaf, rv)
				}
				var bits, capb, cap, sib []frontend.Variable
				var rbits, rcapb, rcap, rsib []*ref.N
				for i := 0; i < ns; i++ {
					v, rv := fc.bitIn(fmt.Sprintf("bit%d", i))
					bits = append(bits, v)
					rbits = append(rbits, rv)
					s, rs := fc.bnIn(fmt.Sprintf("sib%d", i))
					sib = append(sib, s)
					rsib = append(rsib, rs)
				}
				for i := 0; i < 4; i++ {
					v, rv := fc.bitIn(fmt.Sprintf("capbit%d", i))
					capb = append(capb, v)
					rcapb = append(rcapb, rv)
				}
				for i := 0; i < 16; i++ {
					v, rv := fc.bnIn(fmt.Sprintf("cap%d", i))
					cap = append(cap, v)
					rcap = append(rcap, rv)
				}
				before := 0
				if fc.e != nil {
					before = len(fc.e.Cons)
				}
				merkleImpl()(chip, leaf, bits, capb, cap, &variables.FriMerkleProof{Siblings: sib})
				var outs []frontend.Variable
				if fc.e != nil {
					forced := map[*sym.Term]bool{}
					for _, cn := range fc.e.Cons[before:] {
						switch {
						case cn.Kind == sym.CEq:
							outs = append(outs, cn.A, cn.B)
						case cn.Kind == sym.CBool && cn.A.Op == sym.OpAtom && cn.A.Kind == "bit":
							forced[cn.A] = true
							_ = forced
						default:
							extra = append(extra, fmt.Sprintf("constraint kind %d at %s", cn.Kind, firstFrame(cn.Site)))
						}
					}
				}
				if fc.e != nil {
					unforced = 0
					for _, b := range append(append([]frontend.Variable{}, bits...), capb...) {
						if !forced0(fc.e, b, before) {
							unforced++
						}
					}
				}
				root := fc.rb.MerkleFold(fc.rb.BNPermUF(), rleaf, rbits, rsib)
				entry := fc.rb.CapEntry(rcap, rcapb)
				return outs, []*ref.N{root, entry}
			}}
			q := runFieldCase(r, "merkle", c, hook)
			if q != nil && len(stats) < 3 {
				stats = append(stats, q.stats())
			}
			if len(extra) > 0 {
				r.Infra("%s: acceptance involves conditions beyond 'digest == selected cap entry': %v", name, extra)
			}
			if unforced > 0 {
				// the case above takes the bits from {0,1}; the gadget itself must refuse anything else (the
				// selection would otherwise be an affine map a prover can steer): confirm with a forged opening
				what := fmt.Sprintf("%s: %d of the index / cap bits are not forced to be 0 or 1 inside the gadget", name, unforced)
				if msg := merkleReplay(r, kc, wd, ns, r.Seed); msg != "" {
					r.addViolationWithReplay("index bits not forced boolean in the Merkle gadget", what+"; "+msg, map[string]any{"kind": "merkle", "width": wd, "siblings": ns, "seed": r.Seed}, "gnark test engine on the real gadget with a concrete tree built with the native reference hash")
				} else {
					r.Infra("%s -- but the forged opening is rejected by the real gadget", what)
				}
			}
			// any functional disagreement is replayed on the real gadget with concrete trees
			for i := range r.obs {
				ob := r.obs[i]
				if strings.Contains(ob.Name, "-differs") && strings.HasPrefix(ob.Name, name) {
					ob.OnFail = func(res smt.Result) *Violation {
						if msg := merkleReplay(r, kc, wd, ns, r.Seed); msg != "" {
							return &Violation{What: name + ": " + msg, Replay: map[string]any{"kind": "merkle", "width": wd, "siblings": ns, "seed": r.Seed}, Outcome: "gnark test engine on the real gadget with a concrete tree built with the native reference hash"}
						}
						// the permutation is uninterpreted in the query, so the model's digests cannot be replayed
						// as they are; what carries over is its value profile: which siblings it sets to 0. The
						// tree is rebuilt with the native hash and those siblings at 0 (then each position alone).
						var prof [][]int
						var zs []int
						for i := 0; i < ns; i++ {
							for k, v := range res.Model {
								if v != nil && v.Sign() == 0 && merkleSibAtom(k, i) {
									zs = append(zs, i)
									break
								}
							}
						}
						if len(zs) > 0 {
							prof = append(prof, zs)
						}
						for i := 0; i < ns; i++ {
							prof = append(prof, []int{i})
						}
						for _, z := range prof {
							if msg := merkleReplay(r, kc, wd, ns, r.Seed, z...); msg != "" {
								return &Violation{What: fmt.Sprintf("%s: with the siblings at positions %v equal to 0 (profile of the solver's counterexample): %s", name, z, msg), Replay: map[string]any{"kind": "merkle", "width": wd, "siblings": ns, "seed": r.Seed, "zero_siblings": z}, Outcome: "gnark test engine on the real gadget with a concrete tree built with the native reference hash"}
							}
						}
						return nil
					}
				}
			}
			r.Discharge()
		}
	}
	for _, s := range stats {
		r.Sample(s)
	}
	// congruence lemma that justifies writing the reference with the selection inside the call
	r.Add(&Ob{Name: "two_to_one-selection-congruence", Family: "merkle", Script: "(declare-fun H (Int Int) Int)(declare-const b Int)(declare-const s Int)(declare-const c Int)\n(assert (or (= b 0) (= b 1)))\n(assert (not (= (H (ite (= b 1) s c) (ite (= b 1) c s)) (ite (= b 1) (H s c) (H c s)))))", Site: "merkle reference form", Bound: "all b in {0,1}, all s, c, every function H"})

	// ---- wiring inside a query round: which bits / caps / leaves every opening is checked against --
	for _, k := range []int{1} {
		in := base.restrict(k)
		type call struct {
			leaf          []*sym.Term
			bits, capBits []*sym.Term
			cap           []*sym.Term
			sib           []*sym.Term
		}
		var calls []call
		w := walkVerifier(in, walkOpts{Wrapper: "verifier", Cap: capPlain, Field: true, PermGL: true, PermBN: true, NoShape: true,
			Extra: map[string]hookFn{"fri.Chip.verifyMerkleProofToCapWithCapIndex": observe("fri.Chip.verifyMerkleProofToCapWithCapIndex", func(recv any, args []any) {
				var c call
				for _, v := range args[0].([]gl.Variable) {
					c.leaf = append(c.leaf, cur.K(v.Limb))
				}
				for _, v := range args[1].([]frontend.Variable) {
					c.bits = append(c.bits, cur.K(v))
				}
				for _, v := range args[2].([]frontend.Variable) {
					c.capBits = append(c.capBits, cur.K(v))
				}
				for _, v := range args[3].(variables.FriMerkleCap) {
					c.cap = append(c.cap, cur.K(v))
				}
				for _, v := range args[4].(*variables.FriMerkleProof).Siblings {
					c.sib = append(c.sib, cur.K(v))
				}
				calls = append(calls, c)
			})}})
		if w.Panic != "" || w.Err != nil {
			walkFailed(r, in, "verifier", w)
			continue
		}
		// expected wiring from plonky2's fri_verifier_query_round
		var idxBits []*sym.Term
		for _, a := range w.E.Atoms {
			if a.Kind == "bit" && strings.Contains(a.Site, "verifyQueryRound") {
				idxBits = append(idxBits, a)
			}
		}
		nb := int(in.Common.FriParams.DegreeBits + in.Common.FriParams.Config.RateBits)
		ch := int(in.Common.FriParams.Config.CapHeight)
		arities := in.Common.FriParams.ReductionArityBits
		perRound := 4 + len(arities)
		if len(idxBits) == 64*k && len(calls) < perRound*k {
			// fewer Merkle checks than plonky2's query round has: find the opening that is not checked by
			// tampering with the first sibling of each opening of round 0 on the real circuit
			var paths []string
			for j := 0; j < 4; j++ {
				paths = append(paths, fmt.Sprintf(".Proof.OpeningProof.QueryRoundProofs[0].InitialTreesProof.EvalsProofs[%d].MerkleProof.Siblings[0]", j))
			}
			for s := range arities {
				paths = append(paths, fmt.Sprintf(".Proof.OpeningProof.QueryRoundProofs[0].Steps[%d].MerkleProof.Siblings[0]", s))
			}
			found := false
			for _, pth := range paths {
				cr := &circuitReplay{Kind: "circuit", Wrapper: "verifier", Instance: in.Base, K: in.K, Expect: "accepted", Edits: []edit{{Path: pth, Add: "1"}}}
				if acc, _ := runCircuitReplay(cr, r.Repo); acc {
					r.addViolationWithReplay("Merkle opening not verified: "+stripIdx(pth), fmt.Sprintf("%s: the query round performs %d Merkle checks, plonky2's has %d; the opening whose path contains %s is not checked against its cap: the valid proof with that sibling + 1 is still accepted", in.Name, len(calls)/k, perRound, pth), toMap(cr), "real circuit (test.IsSolved) accepts the proof with a tampered Merkle path")
					found = true
					break
				}
			}
			if !found {
				r.Infra("%s: expected %d Merkle checks per round, found %d, but no tampered sibling is accepted", in.Name, perRound, len(calls)/k)
			}
			continue
		}
		if len(idxBits) != 64*k || len(calls) != perRound*k {
			r.Infra("%s: expected %d index bits and %d Merkle checks, found %d and %d", in.Name, 64*k, perRound*k, len(idxBits), len(calls))
			continue
		}
		leafOf := func(path string) *sym.Term {
			for _, l := range w.Leaves {
				if l.Path == path {
					return l.Atom
				}
			}
			return nil
		}
		nOb := 0
		expect := func(label string, got, want []*sym.Term, prefixOnly bool) {
			if !prefixOnly && len(got) != len(want) {
				r.Infra("%s %s: %d elements, expected %d", in.Name, label, len(got), len(want))
				return
			}
			if prefixOnly && len(got) > len(want) {
				r.Infra("%s %s: %d elements, expected at most %d", in.Name, label, len(got), len(want))
				return
			}
			em := sym.NewEmitter()
			em.Abstract = func(t *sym.Term) bool { return t.Op != sym.OpAtom }
			var eqs []string
			for i := range got {
				if want[i] == nil {
					r.Infra("%s %s: expected element %d not found among the circuit inputs", in.Name, label, i)
					return
				}
				eqs = append(eqs, fmt.Sprintf("(= %s %s)", em.Ref(got[i]), em.Ref(want[i])))
			}
			if len(eqs) == 0 {
				return
			}
			em.Assert("(not (and " + strings.Join(eqs, " ") + "))")
			nOb++
			lb := label
			r.Add(&Ob{Name: fmt.Sprintf("wiring[%s] %s", in.Name, label), Family: "merkle-wiring", Script: em.String(), Site: "Merkle opening wiring in verifyQueryRound", Bound: "query round of " + in.Name,
				OnFail: func(res smt.Result) *Violation {
					// a mis-wired opening makes the real circuit reject the honest proof
					cr := &circuitReplay{Kind: "circuit", Wrapper: "verifier", Instance: in.Base, K: in.K, Expect: "rejected"}
					acc, msg := runCircuitReplay(cr, r.Repo)
					if acc {
						r.Note("wiring %s differs from the prescription but the honest proof is still accepted by the real circuit", lb)
						return nil
					}
					return &Violation{What: "in verifyQueryRound the Merkle check '" + lb + "' is given other index bits / cap / leaf data than plonky2's verifier prescribes; the real circuit rejects the honest proof (" + short(msg, 120) + ")", Replay: toMap(cr), Outcome: "real circuit (test.IsSolved) rejects the unmodified valid proof"}
				}})
		}
		capsOf := func(prefix string) []*sym.Term {
			var out []*sym.Term
			for i := 0; i < 16; i++ {
				out = append(out, leafOf(fmt.Sprintf("%s[%d]", prefix, i)))
			}
			return out
		}
		for q := 0; q < k; q++ {
			bits := idxBits[64*q : 64*q+nb]
			capb := bits[nb-ch:]
			oracleCaps := [][]*sym.Term{nil, capsOf(".Proof.WiresCap"), capsOf(".Proof.PlonkZsPartialProductsCap"), capsOf(".Proof.QuotientPolysCap")}
			for o := 0; o < 4; o++ {
				c := calls[perRound*q+o]
				expect(fmt.Sprintf("q%d initial tree %d index bits (the %d that order the path)", q, o, len(c.sib)), firstN(c.bits, len(c.sib)), firstN(bits, len(c.sib)), false)
				expect(fmt.Sprintf("q%d initial tree %d cap bits", q, o), c.capBits, capb, false)
				if o > 0 {
					expect(fmt.Sprintf("q%d initial tree %d cap", q, o), c.cap, oracleCaps[o], false)
				} else {
					for _, t := range c.cap {
						if !t.IsConst() {
							if l := w.leafInfoOf(t); l == nil || l.Vis != "public" {
								r.Note("%s: the constants/sigmas cap is not a constant or public input (C04)", in.Name)
								break
							}
						}
					}
				}
				var wantLeaf, wantSib []*sym.Term
				for i := range c.leaf {
					wantLeaf = append(wantLeaf, leafOf(fmt.Sprintf(".Proof.OpeningProof.QueryRoundProofs[%d].InitialTreesProof.EvalsProofs[%d].Elements[%d].Limb", q, o, i)))
				}
				for i := range c.sib {
					wantSib = append(wantSib, leafOf(fmt.Sprintf(".Proof.OpeningProof.QueryRoundProofs[%d].InitialTreesProof.EvalsProofs[%d].MerkleProof.Siblings[%d]", q, o, i)))
				}
				expect(fmt.Sprintf("q%d initial tree %d leaf", q, o), c.leaf, wantLeaf, false)
				expect(fmt.Sprintf("q%d initial tree %d siblings", q, o), c.sib, wantSib, false)
				if len(c.sib) != nb-ch {
					r.Infra("%s: initial tree %d path has %d siblings, expected %d", in.Name, o, len(c.sib), nb-ch)
				}
			}
			off := 0
			for s, ab := range arities {
				off += int(ab)
				c := calls[perRound*q+4+s]
				expect(fmt.Sprintf("q%d step %d coset index bits (the %d that order the path)", q, s, len(c.sib)), firstN(c.bits, len(c.sib)), firstN(bits[off:], len(c.sib)), false)
				expect(fmt.Sprintf("q%d step %d cap bits", q, s), c.capBits, capb, false)
				expect(fmt.Sprintf("q%d step %d cap", q, s), c.cap, capsOf(fmt.Sprintf(".Proof.OpeningProof.CommitPhaseMerkleCaps[%d]", s)), false)
				var wantLeaf, wantSib []*sym.Term
				for i := 0; i < len(c.leaf)/2; i++ {
					wantLeaf = append(wantLeaf, leafOf(fmt.Sprintf(".Proof.OpeningProof.QueryRoundProofs[%d].Steps[%d].Evals[%d][0].Limb", q, s, i)), leafOf(fmt.Sprintf(".Proof.OpeningProof.QueryRoundProofs[%d].Steps[%d].Evals[%d][1].Limb", q, s, i)))
				}
				for i := range c.sib {
					wantSib = append(wantSib, leafOf(fmt.Sprintf(".Proof.OpeningProof.QueryRoundProofs[%d].Steps[%d].MerkleProof.Siblings[%d]", q, s, i)))
				}
				expect(fmt.Sprintf("q%d step %d leaf", q, s), c.leaf, wantLeaf, false)
				expect(fmt.Sprintf("q%d step %d siblings", q, s), c.sib, wantSib, false)
				if len(c.leaf) != 2*(1<<ab) {
					r.Infra("%s: step %d leaf has %d elements, expected %d", in.Name, s, len(c.leaf), 2*(1<<ab))
				}
				if len(c.sib) != nb-off-ch {
					r.Infra("%s: step %d path has %d siblings, expected %d", in.Name, s, len(c.sib), nb-off-ch)
				}
			}
		}
		r.Sample(map[string]any{"instance": in.Name, "merkle_checks_per_query": perRound, "wiring_obligations": nOb})
		r.Discharge()
	}
	r.Bounds["leaf_widths"] = widths
	r.Bounds["sibling_counts"] = sibs
	r.Bounds["values"] = "all leaves, siblings, cap entries (symbolic), all index-bit patterns"
	r.Assumptions = append(r.Assumptions,
		"the BN254 permutation is uninterpreted on both sides (its equality with the reference is C10); the reference writes two_to_one(ite(b,s,c), ite(b,c,s)), equal to plonky2's if/else form by the congruence lemma discharged here",
		"acceptance of the gadget = the single equality digest == selected cap entry (any other recorded condition is reported)")
	r.Outside = append(r.Outside, "collision resistance of the hash")
}

func (w *walkResult) leafInfoOf(t *sym.Term) *leafInfo {
	for _, l := range w.Leaves {
		if l.Atom == t {
			return l
		}
	}
	return nil
}

func firstN(ts []*sym.Term, n int) []*sym.Term {
	if n > len(ts) {
		n = len(ts)
	}
	return ts[:n]
}
