package main

import (
	"fmt"
	"reflect"
	"math/big"
	"os"
	"strings"

	"github.com/consensys/gnark/frontend"
	gl "github.com/wormhole-foundation/example-near-light-client/goldilocks"
	"github.com/wormhole-foundation/example-near-light-client/verifhook"

	"verif/engine/sym"
)

var (
	R = sym.R
	P = sym.P
)

func pow2(n int) *big.Int { return new(big.Int).Lsh(big.NewInt(1), uint(n)) }

// cur is the context of the symbolic execution in progress (hook handlers find it here).
var cur *sym.Ctx

type hookFn = func(recv any, args []any) []any

// setHooks installs hooks; every key must exist in the instrumented tree.
func setHooks(h map[string]hookFn) {
	for k := range verifhook.Hooks {
		delete(verifhook.Hooks, k)
	}
	for k, f := range h {
		if !verifhook.Known[k] {
			panic(fmt.Sprintf("hook target %s does not exist in the current tree (renamed or signature no longer hookable)", k))
		}
		verifhook.Hooks[k] = f
	}
}

func clearHooks() { setHooks(nil) }

// observe wraps a function of the instrumented tree: cb sees receiver and arguments, then the
// original body runs (the hook removes itself for the duration of the call).
func observe(key string, cb func(recv any, args []any)) hookFn {
	return observe2(key, cb, nil)
}

// observe2 additionally shows the results to after.
func observe2(key string, cb func(recv any, args []any), after func(res []any)) hookFn {
	var self hookFn
	self = func(recv any, args []any) []any {
		if cb != nil {
			cb(recv, args)
		}
		f, ok := verifhook.Funcs[key]
		if !ok {
			panic("observe: no function " + key)
		}
		delete(verifhook.Hooks, key)
		defer func() { verifhook.Hooks[key] = self }()
		fv := reflect.ValueOf(f)
		var in []reflect.Value
		ft := fv.Type()
		idx := 0
		if recv != nil {
			in = append(in, reflect.ValueOf(recv))
			idx = 1
		}
		for i, a := range args {
			if a == nil {
				in = append(in, reflect.Zero(ft.In(idx+i)))
			} else {
				in = append(in, reflect.ValueOf(a))
			}
		}
		var outs []reflect.Value
		if ft.IsVariadic() {
			outs = fv.CallSlice(in)
		} else {
			outs = fv.Call(in)
		}
		res := make([]any, len(outs))
		for i, o := range outs {
			res[i] = o.Interface()
		}
		if after != nil {
			after(res)
		}
		return res
	}
	return self
}

// fn fetches an exported-by-instrumentation function.
func fn[T any](key string) T {
	v, ok := verifhook.Funcs[key]
	if !ok {
		panic(fmt.Sprintf("function %s does not exist in the current tree", key))
	}
	t, ok := v.(T)
	if !ok {
		panic(fmt.Sprintf("function %s has signature %T, harness expects %T", key, v, *new(T)))
	}
	return t
}

func pvar[T any](key string) *T {
	v, ok := verifhook.Vars[key]
	if !ok {
		panic(fmt.Sprintf("variable %s does not exist in the current tree", key))
	}
	t, ok := v.(*T)
	if !ok {
		panic(fmt.Sprintf("variable %s has type %T, harness expects %T", key, v, new(T)))
	}
	return t
}

// Hook handlers that replace range checks by the facts established by the C06 lemmas.
func hookRangeN(recv any, args []any) []any {
	cur.AddRangeFact(cur.K(args[0]), args[1].(int))
	return nil
}
func hookRangeCheckGL(recv any, args []any) []any {
	x := args[0].(gl.Variable)
	cur.AssertIsLessOrEqual(x.Limb, sym.Pm1)
	return nil
}

var factHooksL0 = map[string]hookFn{"goldilocks.Chip.rangeCheckerCheck": hookRangeN}
var factHooksL1 = map[string]hookFn{"goldilocks.Chip.rangeCheckerCheck": hookRangeN, "goldilocks.Chip.RangeCheck": hookRangeCheckGL}

type capKind string

const (
	capPlain  capKind = "plain"
	capNative capKind = "native"
	capCommit capKind = "commit"
)

// newAPI creates a fresh symbolic API of the given capability and makes it current.
func newAPI(c capKind) frontend.API {
	var api frontend.API
	switch c {
	case capPlain:
		a := sym.NewPlain()
		cur = a.Ctx
		api = a
	case capNative:
		a := sym.NewNative()
		cur = a.Ctx
		api = a
	case capCommit:
		a := sym.NewCommit()
		cur = a.Ctx
		api = a
	}
	return api
}

func setBitDecompEnv(on bool) {
	if on {
		os.Setenv("USE_BIT_DECOMPOSITION_RANGE_CHECK", "true")
	} else {
		os.Unsetenv("USE_BIT_DECOMPOSITION_RANGE_CHECK")
	}
}

// quiet runs f with stdout redirected to /dev/null (gl.New prints when the env var is set).
func quiet(f func()) {
	old := os.Stdout
	null, err := os.OpenFile(os.DevNull, os.O_WRONLY, 0)
	if err == nil {
		os.Stdout = null
		defer func() { os.Stdout = old; null.Close() }()
	}
	f()
}

func newChip(api frontend.API) *gl.Chip {
	var c *gl.Chip
	quiet(func() { c = gl.New(api) })
	return c
}

func inAtom(name string, hi *big.Int) *sym.Term { return cur.NamedAtom(name, "input", hi) }
func glIn(name string) gl.Variable               { return gl.NewVariable(inAtom(name, sym.Pm1)) }
func glInRaw(name string) gl.Variable            { return gl.NewVariable(inAtom(name, sym.Rm1)) }

// honestHints emits, for every hint call recorded in the context, the equalities that define the
// honest prover's outputs (the hint functions of the repository / gnark written as SMT terms).
// Returns false if a hint is not known.
func honestHints(em *sym.Emitter, e *sym.Ctx) error {
	for _, h := range e.Hints {
		in := func(i int) string { return em.Ref(h.In[i]) }
		out := func(i int) string { return em.Ref(h.Out[i]) }
		switch {
		case strings.HasSuffix(h.Name, "goldilocks.MulAddHint"):
			x := fmt.Sprintf("(+ (* %s %s) %s)", in(0), in(1), in(2))
			em.Assert(fmt.Sprintf("(= %s (div %s %s))", out(0), x, P))
			em.Assert(fmt.Sprintf("(= %s (mod %s %s))", out(1), x, P))
		case strings.HasSuffix(h.Name, "goldilocks.ReduceHint"):
			em.Assert(fmt.Sprintf("(= %s (div %s %s))", out(0), in(0), P))
			em.Assert(fmt.Sprintf("(= %s (mod %s %s))", out(1), in(0), P))
		case strings.HasSuffix(h.Name, "goldilocks.SplitLimbsHint"):
			em.Assert(fmt.Sprintf("(= %s (div %s 4294967296))", out(0), in(0)))
			em.Assert(fmt.Sprintf("(= %s (mod %s 4294967296))", out(1), in(0)))
		case strings.HasSuffix(h.Name, "goldilocks.InverseHint"):
			// inverse modulo p exists for x != 0 (p prime: trusted); 0 for x = 0
			em.Assert(fmt.Sprintf("(and (<= 0 %s) (< %s %s))", out(0), out(0), P))
			em.Assert(fmt.Sprintf("(ite (= %s 0) (= %s 0) (= (mod (* %s %s) %s) 1))", in(0), out(0), in(0), out(0), P))
		case strings.HasSuffix(h.Name, "bits.nBits") || strings.HasSuffix(h.Name, "bits.NBits"):
			for i := range h.Out {
				em.Assert(fmt.Sprintf("(= %s (mod (div %s %s) 2))", out(i), in(0), pow2(i)))
			}
		case strings.HasSuffix(h.Name, "rangecheck.DecomposeHint"):
			base := int(h.In[1].C.Int64())
			for i := range h.Out {
				em.Assert(fmt.Sprintf("(= %s (mod (div %s %s) %s))", out(i), in(2), pow2(base*i), pow2(base)))
			}
		default:
			return fmt.Errorf("no honest model for hint %s", h.Name)
		}
	}
	return nil
}

// evalTerm evaluates a term under a model of its atoms (exact F_r semantics).
func evalTerm(t *sym.Term, m map[string]*big.Int, memo map[*sym.Term]*big.Int) *big.Int {
	if v, ok := memo[t]; ok {
		return v
	}
	var v *big.Int
	switch t.Op {
	case sym.OpConst:
		v = t.C
	case sym.OpAtom:
		if x, ok := m[t.Name]; ok {
			v = new(big.Int).Mod(x, R)
		} else {
			v = big.NewInt(0)
		}
	case sym.OpAdd, sym.OpMul, sym.OpSub:
		a, b := evalTerm(t.Args[0], m, memo), evalTerm(t.Args[1], m, memo)
		v = new(big.Int)
		switch t.Op {
		case sym.OpAdd:
			v.Add(a, b)
		case sym.OpMul:
			v.Mul(a, b)
		case sym.OpSub:
			v.Sub(a, b)
		}
		v.Mod(v, R)
	case sym.OpIte:
		if evalTerm(t.Args[0], m, memo).Cmp(big.NewInt(1)) == 0 {
			v = evalTerm(t.Args[1], m, memo)
		} else {
			v = evalTerm(t.Args[2], m, memo)
		}
	case sym.OpIsZero:
		if evalTerm(t.Args[0], m, memo).Sign() == 0 {
			v = big.NewInt(1)
		} else {
			v = big.NewInt(0)
		}
	default:
		panic("evalTerm: op " + t.Op.String())
	}
	memo[t] = v
	return v
}

func atomNames(e *sym.Ctx) []string {
	var n []string
	for _, a := range e.Atoms {
		n = append(n, a.Name)
	}
	return n
}

func fnName(key string) string { return key }

// overridesFromModel turns a solver model into forced outputs for the repository's hint
// functions: for every recorded hint call whose outputs occur among the emitted atoms, inputs are
// evaluated under the model and outputs read from it.
func overridesFromModel(e *sym.Ctx, model map[string]*big.Int, seen []*sym.Term) []override {
	in := map[*sym.Term]bool{}
	for _, a := range seen {
		in[a] = true
	}
	memo := map[*sym.Term]*big.Int{}
	var out []override
	for _, h := range e.Hints {
		name := ""
		for k := range repoHints {
			if strings.HasSuffix(h.Name, k) {
				name = k
			}
		}
		if name == "" {
			continue
		}
		keep := false
		for _, o := range h.Out {
			if in[o] {
				keep = true
			}
		}
		if !keep {
			continue
		}
		ov := override{Hint: name}
		for _, t := range h.In {
			ov.In = append(ov.In, evalTerm(t, model, memo).String())
		}
		for _, t := range h.Out {
			ov.Out = append(ov.Out, evalTerm(t, model, memo).String())
		}
		out = append(out, ov)
	}
	return out
}
