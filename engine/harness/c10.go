package main

import (
	"fmt"
	"math/big"
	"path/filepath"
	"strings"

	"github.com/consensys/gnark/frontend"
	gl "github.com/wormhole-foundation/example-near-light-client/goldilocks"
	"github.com/wormhole-foundation/example-near-light-client/poseidon"

	"verif/engine/ref"
	"verif/engine/smt"
	"verif/engine/sym"
)

func init() { drivers["C10"] = runC10 }

func runC10(r *Run) {
	r.Functions = []string{"poseidon.(*BN254Chip).Poseidon", "poseidon.(*BN254Chip).{ark,exp5,exp5state,mix,fullRounds,partialRounds}", "poseidon.(*BN254Chip).HashNoPad", "poseidon.(*BN254Chip).HashOrNoop", "poseidon.(*BN254Chip).TwoToOne", "poseidon.(*BN254Chip).ToVec", "poseidon/bn254_constants.go (tables, compared through the equivalence with the Rust constants)"}
	kc, err := ref.LoadBN128Consts(filepath.Join(r.Repo, "crypto/plonky2_bn128/src/poseidon_bn128_constants.rs"))
	if err != nil {
		r.Infra("cannot read the Rust reference constants: %v", err)
		return
	}
	concreteBN = kc // replays evaluate the reference with the real permutation
	var cases []fieldCase
	// ---- the permutation against poseidon_bn128.rs ------------------------------------------------
	cases = append(cases, fieldCase{name: "BN254.Poseidon", bigMod: true, termCuts: true, bound: "all four state elements in F_r (symbolic)", build: func(fc *fctx) ([]frontend.Variable, []*ref.N) {
		chip := poseidon.NewBN254Chip(fc.api)
		var st poseidon.BN254State
		var rs ref.BNState
		for i := range st {
			st[i], rs[i] = fc.bnIn(fmt.Sprintf("s%d", i))
		}
		out := chip.Poseidon(st)
		ro := fc.rb.BNPermutation(kc, rs)
		return out[:], ro[:]
	}})
	// ---- sponge / shortcut / compression with the permutation uninterpreted ------------------------
	lens := []int{0, 1, 2, 3, 4, 5, 8, 9, 10, 12, 18, 19}
	if r.Thorough() {
		lens = nil
		for n := 0; n <= 30; n++ {
			lens = append(lens, n)
		}
		lens = append(lens, 85, 135, 140)
	}
	for _, n := range lens {
		n := n
		mk := func(name string, f func(c *poseidon.BN254Chip, in []gl.Variable) poseidon.BN254HashOut, g func(b *ref.B, p ref.BNPerm, in []*ref.N) *ref.N) {
			cases = append(cases, fieldCase{name: fmt.Sprintf("%s[len=%d]", name, n), bigMod: true, termCuts: true, bound: fmt.Sprintf("%d canonical Goldilocks inputs (symbolic), permutation uninterpreted", n), build: func(fc *fctx) ([]frontend.Variable, []*ref.N) {
				chip := poseidon.NewBN254Chip(fc.api)
				var in []gl.Variable
				var rin []*ref.N
				for i := 0; i < n; i++ {
					v, rv := fc.glIn(fmt.Sprintf("x%d", i))
					in = append(in, v)
					rin = append(rin, rv)
				}
				return []frontend.Variable{f(chip, in)}, []*ref.N{g(fc.rb, fc.rb.BNPermUF(), rin)}
			}})
		}
		mk("BN254.HashNoPad", (*poseidon.BN254Chip).HashNoPad, (*ref.B).BNHashNoPad)
		mk("BN254.HashOrNoop", (*poseidon.BN254Chip).HashOrNoop, (*ref.B).BNHashOrNoop)
	}
	// the same variable at several positions, and read again after the call: packing accumulates with
	// api.MulAcc, which may rewrite its first operand in place (alias mode follows gnark's R1CS builder there)
	for _, pat := range [][]int{{0, 0}, {0, 0, 0, 1}, {0, 0, 1, 2}, {0, 1, 0, 2}, {0, 1, 1, 2}, {0, 1, 2, 0, 0, 3}} {
		pat := pat
		mk := func(name string, f func(c *poseidon.BN254Chip, in []gl.Variable) poseidon.BN254HashOut, g func(b *ref.B, p ref.BNPerm, in []*ref.N) *ref.N) {
			cases = append(cases, fieldCase{name: fmt.Sprintf("%s[repeated inputs %v]", name, pat), bigMod: true, termCuts: true, bound: fmt.Sprintf("canonical Goldilocks inputs (symbolic) placed as %v, read again after the call; permutation uninterpreted", pat), build: func(fc *fctx) ([]frontend.Variable, []*ref.N) {
				chip := poseidon.NewBN254Chip(fc.api)
				vs := map[int]gl.Variable{}
				rvs := map[int]*ref.N{}
				var in []gl.Variable
				var rin []*ref.N
				top := 0
				for _, k := range pat {
					if _, ok := vs[k]; !ok {
						vs[k], rvs[k] = fc.glIn(fmt.Sprintf("x%d", k))
					}
					if k > top {
						top = k
					}
					in = append(in, vs[k])
					rin = append(rin, rvs[k])
				}
				outs := []frontend.Variable{f(chip, in)}
				refs := []*ref.N{g(fc.rb, fc.rb.BNPermUF(), rin)}
				for k := 0; k <= top; k++ {
					outs = append(outs, vs[k].Limb)
					refs = append(refs, rvs[k])
				}
				return outs, refs
			}})
		}
		mk("BN254.HashNoPad", (*poseidon.BN254Chip).HashNoPad, (*ref.B).BNHashNoPad)
		mk("BN254.HashOrNoop", (*poseidon.BN254Chip).HashOrNoop, (*ref.B).BNHashOrNoop)
	}
	cases = append(cases, fieldCase{name: "BN254.TwoToOne", bigMod: true, termCuts: true, bound: "both hashes in F_r (symbolic), permutation uninterpreted", build: func(fc *fctx) ([]frontend.Variable, []*ref.N) {
		chip := poseidon.NewBN254Chip(fc.api)
		l, rl := fc.bnIn("left")
		rr, rrr := fc.bnIn("right")
		return []frontend.Variable{chip.TwoToOne(l, rr)}, []*ref.N{fc.rb.BNTwoToOne(fc.rb.BNPermUF(), rl, rrr)}
	}})
	var stats []any
	// the same cases once more in alias mode (api.MulAcc extends its accumulator in place): the hash
	// code accumulates with MulAcc throughout
	for _, c := range append([]fieldCase{}, cases...) {
		c.alias = true
		c.name += " (alias mode)"
		cases = append(cases, c)
	}
	for i, c := range cases {
		var hooks map[string]hookFn
		if i > 0 {
			hooks = map[string]hookFn{"poseidon.BN254Chip.Poseidon": hookPermBN}
		}
		q := runFieldCase(r, "bn254-poseidon", c, hooks)
		if q != nil && len(stats) < 4 {
			stats = append(stats, q.stats())
		}
		r.Discharge()
	}
	for _, s := range stats {
		r.Sample(s)
	}

	// ---- ToVec: canonical bit decomposition, 56-bit chunks ----------------------------------------
	func() {
		clearHooks()
		api := newAPI(capPlain)
		e := cur
		defer forgetChips()
		chip := poseidon.NewBN254Chip(api)
		h := inAtom("h", sym.Rm1)
		out := chip.ToVec(h)
		e.Refine()
		em := sym.NewEmitter()
		em.Refined = true
		em.AssertAll(e)
		hn := em.Ref(h)
		var sum, rng []string
		for i, o := range out {
			on := em.Ref(e.K(o.Limb))
			bits := 56
			if i == len(out)-1 {
				bits = 254 - 56*(len(out)-1)
			}
			rng = append(rng, fmt.Sprintf("(<= 0 %s) (< %s %s)", on, on, pow2(bits)))
			sum = append(sum, fmt.Sprintf("(* %s %s)", pow2(56*i), on))
		}
		goal := fmt.Sprintf("(and (= %d 5) %s (= %s (+ %s)))", len(out), strings.Join(rng, " "), hn, strings.Join(sum, " "))
		em.Assert("(not " + goal + ")")
		seen := em.AtomsSeen
		outs := out
		r.Add(&Ob{Name: "BN254.ToVec/chunks-are-digits", Family: "bn254-conversions", Script: em.String(), Site: "BN254.ToVec", Values: sym.SortedAtomNames(seen), Bound: "every hash value in [0,r): five chunks below 2^56 (the last below 2^30) whose base-2^56 sum is the hash over the integers; by uniqueness of digits these are plonky2's 7-byte little-endian chunks, and distinct hashes give distinct chunk vectors",
			OnFail: func(res smt.Result) *Violation {
				memo := map[*sym.Term]*big.Int{}
				g := &gadgetReplay{Kind: "gadget", Gadget: "ToVec", Cfg: "bitdecomp-r1cs", Expect: "accepted", Overrides: overridesFromModel(e, res.Model, seen)}
				g.In = []string{evalTerm(h, res.Model, memo).String()}
				for _, o := range outs {
					g.Out = append(g.Out, evalTerm(e.K(o.Limb), res.Model, memo).String())
				}
				acc, msg := runGadgetReplay(g)
				if !acc {
					r.Note("replay of ToVec not accepted: %s", msg)
					return nil
				}
				return &Violation{What: fmt.Sprintf("BN254.ToVec: the real constraint system accepts hash %s with chunks %v, which are not its base-2^56 digits (dishonest bit-decomposition hint)", g.In[0], g.Out), Replay: toMap(g), Outcome: "real constraint system (gnark r1cs builder + solver, hints overridden) satisfied"}
			}})
		em2 := sym.NewEmitter()
		em2.Refined = true
		em2.AssertAll(e)
		r.Add(&Ob{Name: "BN254.ToVec/reach", Family: "vacuity-guard", Expect: smt.Sat, Guard: true, Script: em2.String()})
	}()
	// ---- injectivity of the 3 x 64-bit packing ------------------------------------------------------
	for n := 1; n <= 3; n++ {
		var sb strings.Builder
		var sa, sb2, eq []string
		for i := 0; i < n; i++ {
			fmt.Fprintf(&sb, "(declare-const a%d Int)(declare-const b%d Int)\n(assert (and (<= 0 a%d) (< a%d %s) (<= 0 b%d) (< b%d %s)))\n", i, i, i, i, P, i, i, P)
			sa = append(sa, fmt.Sprintf("(* %s a%d)", pow2(64*i), i))
			sb2 = append(sb2, fmt.Sprintf("(* %s b%d)", pow2(64*i), i))
			eq = append(eq, fmt.Sprintf("(= a%d b%d)", i, i))
		}
		fmt.Fprintf(&sb, "(assert (= (mod (+ 0 %s) %s) (mod (+ 0 %s) %s)))\n(assert (not (and %s)))", strings.Join(sa, " "), R, strings.Join(sb2, " "), R, strings.Join(eq, " "))
		r.Add(&Ob{Name: fmt.Sprintf("packing-injective[%d limbs]", n), Family: "bn254-conversions", Script: sb.String(), Site: "BN254 packing", Bound: "all canonical limb values",
			OnFail: func(res smt.Result) *Violation { return nil }})
	}
	r.Bounds["input_lengths"] = lens
	r.Bounds["values"] = "all field values (symbolic)"
	r.Assumptions = append(r.Assumptions,
		"reference = crypto/plonky2_bn128/src/{poseidon_bn128.rs, config.rs} re-expressed in engine/ref/bn128.go; constants parsed from poseidon_bn128_constants.rs at run time (so the Go tables are compared with the Rust tables through the equivalence)",
		"sponge/compression cases treat the permutation as an uninterpreted function on both sides; its equality with the Rust permutation is the first case")
	r.Outside = append(r.Outside, "collision resistance of the permutation itself")
}
