package main

import (
	"fmt"
	"math/big"
	"strings"

	"github.com/consensys/gnark/frontend"
	gl "github.com/wormhole-foundation/example-near-light-client/goldilocks"
	"github.com/wormhole-foundation/example-near-light-client/plonk"
	"github.com/wormhole-foundation/example-near-light-client/plonk/gates"
	"github.com/wormhole-foundation/example-near-light-client/poseidon"
	"github.com/wormhole-foundation/example-near-light-client/types"
	"github.com/wormhole-foundation/example-near-light-client/variables"

	"verif/engine/ref"
	"verif/engine/sym"
)

func init() { drivers["C16"] = runC16 }

// syntheticCommon builds a small common-data description (gates are irrelevant here: their
// constraints are opaque inputs).
func syntheticCommon(degBits uint64, challenges, routed, qdf, nGate uint64) types.CommonCircuitData {
	var c types.CommonCircuitData
	c.Config.NumWires = routed + 3
	c.Config.NumRoutedWires = routed
	c.Config.NumConstants = 2
	c.Config.NumChallenges = challenges
	c.DegreeBits = degBits
	c.FriParams.DegreeBits = degBits
	c.QuotientDegreeFactor = qdf
	c.NumPartialProducts = routed/qdf - 1
	c.NumGateConstraints = nGate
	c.NumConstants = 3
	c.GateIds = []string{"NoopGate"}
	c.SelectorsInfo = *gates.NewSelectorsInfo([]uint64{0}, []uint64{0}, []uint64{1})
	for i := uint64(0); i < routed; i++ {
		c.KIs = append(c.KIs, 7*i*i+3*i+5) // arbitrary distinct shifts, the first one deliberately not 1
	}
	return c
}

// plonkCase: with before set, a chip for that other description is built first (and dropped), so that the
// case does not depend on what else ran in the process.
func plonkCase(name string, cm types.CommonCircuitData, r *Run, before ...types.CommonCircuitData) fieldCase {
	var self fieldCase
	self = fieldCase{name: name, acceptReplay: func() string { return plonkAcceptReplay(self, cm, r) }, bound: fmt.Sprintf("all openings and challenges symbolic; %d challenge rounds, %d routed wires, quotient degree factor %d, %d partial products, %d (opaque) gate constraints, degree bits %d", cm.Config.NumChallenges, cm.Config.NumRoutedWires, cm.QuotientDegreeFactor, cm.NumPartialProducts, cm.NumGateConstraints, cm.DegreeBits),
		build: func(fc *fctx) ([]frontend.Variable, []*ref.N) {
			for _, b := range before {
				plonk.NewPlonkChip(fc.api, b)
			}
			chip := plonk.NewPlonkChip(fc.api, cm)
			nc := int(cm.Config.NumChallenges)
			qe := func(pfx string, n int) ([]gl.QuadraticExtensionVariable, []ref.E) {
				var a []gl.QuadraticExtensionVariable
				var b []ref.E
				for i := 0; i < n; i++ {
					v, rv := fc.qeIn(fmt.Sprintf("%s%d", pfx, i))
					a = append(a, v)
					b = append(b, rv)
				}
				return a, b
			}
			var op variables.OpeningSet
			var rop ref.PlonkOpenings
			op.Constants, _ = qe("const", int(cm.NumConstants))
			op.PlonkSigmas, rop.Sigmas = qe("sigma", int(cm.Config.NumRoutedWires))
			op.Wires, rop.Wires = qe("wire", int(cm.Config.NumWires))
			op.PlonkZs, rop.Zs = qe("z", nc)
			op.PlonkZsNext, rop.ZsNext = qe("znext", nc)
			op.PartialProducts, rop.PartialProducts = qe("pp", nc*int(cm.NumPartialProducts))
			op.QuotientPolys, rop.Quotients = qe("quot", nc*int(cm.QuotientDegreeFactor))
			var ch variables.ProofChallenges
			var rb, rg, ra []*ref.N
			for i := 0; i < nc; i++ {
				v, rv := fc.glIn(fmt.Sprintf("beta%d", i))
				ch.PlonkBetas = append(ch.PlonkBetas, v)
				rb = append(rb, rv)
				v, rv = fc.glIn(fmt.Sprintf("gamma%d", i))
				ch.PlonkGammas = append(ch.PlonkGammas, v)
				rg = append(rg, rv)
				v, rv = fc.glIn(fmt.Sprintf("alpha%d", i))
				ch.PlonkAlphas = append(ch.PlonkAlphas, v)
				ra = append(ra, rv)
			}
			zeta, rz := fc.qeIn("zeta")
			ch.PlonkZeta = zeta
			var pih poseidon.GoldilocksHashOut
			for i := range pih {
				pih[i], _ = fc.glIn(fmt.Sprintf("pih%d", i))
			}
			// opaque gate constraints (shared by both sides)
			gcs, rgcs := qe("gate", int(cm.NumGateConstraints))
			gateHookValue = gcs
			before := 0
			if fc.e != nil {
				before = len(fc.e.Cons)
			}
			chip.Verify(ch, op, pih)
			if fc.e == nil {
				return nil, nil
			}
			var outs []frontend.Variable
			for _, c := range fc.e.Cons[before:] {
				if c.Kind == sym.CEq && strings.HasPrefix(c.Site, "goldilocks.(*Chip).AssertIsEqual") && strings.Contains(c.Site, "plonk.(*PlonkChip).Verify") && !strings.Contains(c.Site, "evalL0") {
					outs = append(outs, c.A, c.B)
				}
			}
			sh := &ref.PlonkShape{DegreeBits: uint(cm.DegreeBits), NumChallenges: nc, NumRoutedWires: int(cm.Config.NumRoutedWires), NumPartialProducts: int(cm.NumPartialProducts), QuotientDegreeFactor: int(cm.QuotientDegreeFactor)}
			for _, k := range cm.KIs {
				sh.KIs = append(sh.KIs, new(big.Int).SetUint64(k))
			}
			conds := fc.rb.VanishingConditions(sh, &rop, rb, rg, ra, rz, rgcs)
			var refs []*ref.N
			for _, c := range conds {
				refs = append(refs, c[0][0], c[1][0], c[0][1], c[1][1])
			}
			return outs, refs
		}}
	return self
}

func plonkGateHooks() map[string]hookFn {
	return map[string]hookFn{"gates.EvaluateGatesChip.EvaluateGateConstraints": func(recv any, args []any) []any {
		return []any{append([]gl.QuadraticExtensionVariable{}, gateHookValue...)}
	}}
}

// plonkAcceptReplay: random openings and challenges, the first quotient chunk of every round
// solved (with the native reference) so that the identity holds: the real PlonkChip.Verify must
// accept; with one opening perturbed it must reject.
func plonkAcceptReplay(c fieldCase, cm types.CommonCircuitData, r *Run) string {
	hooks := plonkGateHooks()
	names, his, atoms, refs, e := engineInputs(c, hooks)
	if e != "" || len(refs) == 0 {
		return ""
	}
	env := map[string]*big.Int{}
	for i, n := range names {
		env[n] = ref.UFEval(fmt.Sprintf("plonk-replay-%d", r.Seed), i, false, nil)
		if his[i].Cmp(sym.Pm1) < 0 {
			env[n].Mod(env[n], new(big.Int).Add(his[i], big.NewInt(1)))
		}
	}
	nc := int(cm.Config.NumChallenges)
	qdf := int(cm.QuotientDegreeFactor)
	for i := 0; i < nc; i++ {
		env[fmt.Sprintf("quot%d_0", i*qdf)] = big.NewInt(0)
		env[fmt.Sprintf("quot%d_1", i*qdf)] = big.NewInt(0)
	}
	eval := func() []*big.Int {
		memo := map[*ref.N]*big.Int{}
		var out []*big.Int
		for _, n := range refs {
			out = append(out, ref.Eval(n, func(h any) *big.Int { return env[h.(*sym.Term).Name] }, memo))
		}
		return out
	}
	_ = atoms
	v := eval()
	// zeta^n - 1
	z := [2]*big.Int{env["zeta_0"], env["zeta_1"]}
	zp := z
	for i := uint64(0); i < cm.DegreeBits; i++ {
		zp = extMulN(zp, zp)
	}
	zh := extSubN(zp, [2]*big.Int{big.NewInt(1), big.NewInt(0)})
	zhi := extInvN(zh)
	for i := 0; i < nc; i++ {
		lhs := [2]*big.Int{v[4*i], v[4*i+2]}
		rhs := [2]*big.Int{v[4*i+1], v[4*i+3]}
		q0 := extMulN(extSubN(lhs, rhs), zhi)
		env[fmt.Sprintf("quot%d_0", i*qdf)] = q0[0]
		env[fmt.Sprintf("quot%d_1", i*qdf)] = q0[1]
	}
	v = eval()
	for i := 0; i < nc; i++ {
		if v[4*i].Cmp(v[4*i+1]) != 0 || v[4*i+2].Cmp(v[4*i+3]) != 0 {
			return "" // reference self-check failed: no verdict
		}
	}
	if ok, msg := runCaseOnEngine(c, hooks, names, env); !ok {
		return "openings that satisfy plonky2's vanishing identity (quotient solved with the native reference) are rejected by the real PlonkChip.Verify: " + msg
	}
	for _, pert := range []string{"quot0_0", "z0_1", "wire1_0", "pp0_0", "sigma0_0", "gate0_0", "znext0_0", "alpha0", "beta0", "gamma0"} {
		if _, ok := env[pert]; !ok {
			continue
		}
		oldv := env[pert]
		env[pert] = new(big.Int).Mod(new(big.Int).Add(oldv, big.NewInt(1)), P)
		ok, _ := runCaseOnEngine(c, hooks, names, env)
		env[pert] = oldv
		if ok {
			return "openings that violate plonky2's vanishing identity (" + pert + " + 1) are accepted by the real PlonkChip.Verify"
		}
	}
	// crafted perturbations: move Z_H(zeta)*t(zeta) of one round by exactly one unit in exactly one
	// coordinate (an identity that is off in a single limb must be rejected too)
	for i := 0; i < nc; i++ {
		for ui, u := range [][2]*big.Int{{big.NewInt(1), big.NewInt(0)}, {big.NewInt(0), big.NewInt(1)}} {
			k0, k1 := fmt.Sprintf("quot%d_0", i*qdf), fmt.Sprintf("quot%d_1", i*qdf)
			o0, o1 := env[k0], env[k1]
			d := extMulN(u, zhi)
			env[k0] = new(big.Int).Mod(new(big.Int).Add(o0, d[0]), P)
			env[k1] = new(big.Int).Mod(new(big.Int).Add(o1, d[1]), P)
			ok, _ := runCaseOnEngine(c, hooks, names, env)
			env[k0], env[k1] = o0, o1
			if ok {
				return fmt.Sprintf("openings whose vanishing identity of round %d is off by one in coordinate %d only (first quotient chunk + unit/Z_H(zeta)) are accepted by the real PlonkChip.Verify", i, ui)
			}
		}
	}
	return ""
}

// gateHookValue is what the hooked EvaluateGateConstraints returns.
var gateHookValue []gl.QuadraticExtensionVariable

func runC16(r *Run) {
	r.Functions = []string{"plonk.(*PlonkChip).Verify", "plonk.(*PlonkChip).evalVanishingPoly", "plonk.(*PlonkChip).checkPartialProducts", "plonk.(*PlonkChip).evalL0", "plonk.(*PlonkChip).expPowerOf2Extension", "plonk.NewPlonkChip"}
	base := loadInstance(r.Repo, "test_circuit")
	hooks := plonkGateHooks()
	var cases []fieldCase
	type sh struct{ deg, ch, routed, qdf, ng uint64 }
	// (quotient degree factors 3 and 6: chunk bounds that are not powers of two)
	shapes := []sh{{3, 1, 2, 1, 1}, {4, 2, 4, 2, 3}, {5, 1, 8, 8, 2}, {6, 3, 16, 4, 2}, {4, 2, 6, 3, 2}, {5, 1, 12, 6, 1}}
	if r.Thorough() {
		shapes = append(shapes, sh{2, 1, 2, 2, 0}, sh{4, 2, 16, 8, 5}, sh{7, 3, 8, 2, 4}, sh{12, 2, 80, 8, 10}, sh{10, 1, 16, 1, 1})
	}
	for i, s := range shapes {
		cases = append(cases, plonkCase(fmt.Sprintf("PlonkChip.Verify[synthetic deg=%d ch=%d routed=%d qdf=%d]", s.deg, s.ch, s.routed, s.qdf), syntheticCommon(s.deg, s.ch, s.routed, s.qdf, s.ng), r))
		if i == 1 {
			// twins of this description in the same process: other coset shifts, then another degree, everything
			// else equal (a chip must take these from its own description, whatever was built before)
			tw := syntheticCommon(s.deg, s.ch, s.routed, s.qdf, s.ng)
			for j := range tw.KIs {
				tw.KIs[j] = 11*uint64(j)*uint64(j) + uint64(j) + 9
			}
			cases = append(cases, plonkCase(fmt.Sprintf("PlonkChip.Verify[synthetic deg=%d ch=%d routed=%d qdf=%d, other coset shifts]", s.deg, s.ch, s.routed, s.qdf), tw, r, syntheticCommon(s.deg, s.ch, s.routed, s.qdf, s.ng)))
			cases = append(cases, plonkCase(fmt.Sprintf("PlonkChip.Verify[synthetic deg=%d ch=%d routed=%d qdf=%d]", s.deg+1, s.ch, s.routed, s.qdf), syntheticCommon(s.deg+1, s.ch, s.routed, s.qdf, s.ng), r, tw))
		}
	}
	cases = append(cases, plonkCase("PlonkChip.Verify[test_circuit]", base.Common, r))
	if r.Thorough() {
		b2 := loadInstance(r.Repo, "random/CGZPhFRkL3NvmGaXWBc6N7qJD519EUe6vyNpaEyDe2Ev")
		cases = append(cases, plonkCase("PlonkChip.Verify[97-input circuit]", b2.Common, r))
	}
	var stats []any
	for _, c := range cases {
		if q := runFieldCase(r, "plonk-vanishing", c, hooks); q != nil {
			stats = append(stats, q.stats())
		}
		r.Discharge()
	}
	for i, s := range stats {
		if i == 0 || i == len(stats)-1 {
			r.Sample(s)
		}
	}
	r.Bounds["values"] = "all openings, challenges and gate-constraint values (symbolic canonical values)"
	r.Bounds["shapes"] = fmt.Sprint(shapes) + " (deg bits, challenges, routed wires, quotient degree factor, gate constraints) + the real common data"
	r.Assumptions = append(r.Assumptions,
		"gate constraints are opaque values shared by implementation and reference (their equality with plonky2's gate polynomials is C15)",
		"precondition zeta != 1 (the circuit asserts that the division in L_0 succeeds)",
		"leaf contracts C05-C07; extension arithmetic as executed (C08)")
	r.Outside = append(r.Outside, "shapes with routed wires not a multiple of the quotient degree factor (plonky2 pads the last chunk; the implementation requires exact chunks)")
}
