// Package smt drives long-lived SMT solver processes (z3 4.8.12, z3 5.1.0 = z3-new, cvc5) over
// stdin/stdout. Hard wall-clock limits are enforced by killing the process. Any "(error" line in
// the solver output makes the answer inconclusive.
package smt

import (
	"bufio"
	"fmt"
	"io"
	"math/big"
	"os/exec"
	"strings"
	"sync"
	"sync/atomic"
	"time"
)

type Status string

const (
	Unsat   Status = "unsat"
	Sat     Status = "sat"
	Unknown Status = "unknown"
	Timeout Status = "timeout"
	Error   Status = "error"
)

type Query struct {
	Name    string
	Script  string   // declarations + assertions, without (check-sat)
	Values  []string // constant names to read back when sat
	Solver  string   // "z3" (default), "z3-new", "cvc5"
	Timeout time.Duration
	Expect  Status // what the caller hopes for (informational)
	Tag     any
}

type Result struct {
	Query  *Query
	Status Status
	Model  map[string]*big.Int
	SModel map[string]string // raw values (strings etc.)
	Raw    string
	Dur    time.Duration
	Solver string
}

type session struct {
	solver string
	cmd    *exec.Cmd
	in     io.WriteCloser
	out    *bufio.Reader
	seq    int
}

func argv(solver string) []string {
	switch solver {
	case "", "z3":
		return []string{"z3", "-in"}
	case "z3-new":
		return []string{"z3-new", "-in"}
	case "cvc5":
		return []string{"cvc5", "--incremental", "--lang=smt2", "--strings-exp", "--produce-models", "--nl-ext-tplanes"}
	}
	panic("unknown solver " + solver)
}

func start(solver string) (*session, error) {
	a := argv(solver)
	cmd := exec.Command(a[0], a[1:]...)
	in, err := cmd.StdinPipe()
	if err != nil {
		return nil, err
	}
	out, err := cmd.StdoutPipe()
	if err != nil {
		return nil, err
	}
	cmd.Stderr = cmd.Stdout
	if err := cmd.Start(); err != nil {
		return nil, err
	}
	return &session{solver: solver, cmd: cmd, in: in, out: bufio.NewReaderSize(out, 1<<20)}, nil
}

func (s *session) kill() {
	if s.cmd != nil && s.cmd.Process != nil {
		s.cmd.Process.Kill()
		s.cmd.Wait()
	}
}

// readUntil reads lines until the sentinel; returns collected text.
func (s *session) readUntil(sentinel string, deadline time.Time) (string, bool) {
	type rd struct {
		text string
		ok   bool
	}
	ch := make(chan rd, 1)
	go func() {
		var sb strings.Builder
		for {
			line, err := s.out.ReadString('\n')
			if strings.Contains(line, sentinel) {
				ch <- rd{sb.String(), true}
				return
			}
			sb.WriteString(line)
			if err != nil {
				ch <- rd{sb.String(), false}
				return
			}
		}
	}()
	select {
	case r := <-ch:
		return r.text, r.ok
	case <-time.After(time.Until(deadline)):
		s.kill()
		<-ch
		return "", false
	}
}

var TotalQueries, TotalNanos int64

// Pool runs queries on a fixed number of worker sessions per solver.
type Pool struct {
	mu   sync.Mutex
	idle map[string][]*session
	N    int
}

func NewPool(n int) *Pool { return &Pool{idle: map[string][]*session{}, N: n} }

func (p *Pool) get(solver string) (*session, error) {
	p.mu.Lock()
	l := p.idle[solver]
	if len(l) > 0 {
		s := l[len(l)-1]
		p.idle[solver] = l[:len(l)-1]
		p.mu.Unlock()
		return s, nil
	}
	p.mu.Unlock()
	return start(solver)
}

func (p *Pool) put(s *session) {
	p.mu.Lock()
	p.idle[s.solver] = append(p.idle[s.solver], s)
	p.mu.Unlock()
}

func (p *Pool) Close() {
	p.mu.Lock()
	defer p.mu.Unlock()
	for _, l := range p.idle {
		for _, s := range l {
			s.in.Close()
			s.kill()
		}
	}
	p.idle = map[string][]*session{}
}

// Solve runs one query.
func (p *Pool) Solve(q *Query) (res Result) {
	solver := q.Solver
	if solver == "" {
		solver = "z3"
	}
	to := q.Timeout
	if to == 0 {
		to = 60 * time.Second
	}
	t0 := time.Now()
	res = Result{Query: q, Solver: solver, Status: Error}
	s, err := p.get(solver)
	if err != nil {
		res.Raw = err.Error()
		return res
	}
	defer func() {
		res.Dur = time.Since(t0)
		atomic.AddInt64(&TotalQueries, 1)
		atomic.AddInt64(&TotalNanos, int64(res.Dur))
	}()
	s.seq++
	sent := fmt.Sprintf("@@done%d@@", s.seq)
	var sb strings.Builder
	sb.WriteString("(reset)\n")
	if solver == "cvc5" {
		sb.WriteString("(set-logic ALL)\n")
	}
	if solver != "cvc5" {
		// soft limit too (z3); the hard limit is the kill below
		fmt.Fprintf(&sb, "(set-option :timeout %d)\n", to.Milliseconds())
	}
	sb.WriteString(q.Script)
	sb.WriteString("\n(check-sat)\n")
	fmt.Fprintf(&sb, "(echo \"%s\")\n", sent)
	deadline := time.Now().Add(to + 2*time.Second)
	// write concurrently with reading: a solver that prints a lot (errors, warnings) while we are
	// still writing would otherwise dead-lock on full pipes
	werr := make(chan error, 1)
	go func() {
		_, err := io.WriteString(s.in, sb.String())
		werr <- err
	}()
	text, ok := s.readUntil(sent, deadline)
	select {
	case err := <-werr:
		if err != nil && ok {
			ok = false
			text += "\nwrite: " + err.Error()
		}
	default:
		if !ok {
			// writer still blocked: the kill in readUntil unblocks it
			go func() { <-werr }()
		} else {
			<-werr
		}
	}
	res.Raw = text
	if !ok {
		s.kill()
		if time.Now().After(deadline.Add(-100 * time.Millisecond)) {
			res.Status = Timeout
		} else {
			res.Status = Error
		}
		return res
	}
	if strings.Contains(text, "(error") {
		res.Status = Error
		p.put(s)
		return res
	}
	ans := ""
	for _, l := range strings.Split(text, "\n") {
		l = strings.TrimSpace(l)
		if l == "sat" || l == "unsat" || l == "unknown" || l == "timeout" {
			ans = l
		}
	}
	switch ans {
	case "unsat":
		res.Status = Unsat
	case "sat":
		res.Status = Sat
	case "unknown":
		res.Status = Unknown
		if time.Since(t0) >= to-50*time.Millisecond {
			res.Status = Timeout
		}
	case "timeout":
		res.Status = Timeout
	default:
		res.Status = Error
	}
	if res.Status == Sat && len(q.Values) > 0 {
		s.seq++
		sent2 := fmt.Sprintf("@@done%d@@", s.seq)
		res.Model = map[string]*big.Int{}
		res.SModel = map[string]string{}
		// chunk get-value
		for i := 0; i < len(q.Values); i += 500 {
			j := i + 500
			if j > len(q.Values) {
				j = len(q.Values)
			}
			fmt.Fprintf(s.in, "(get-value (%s))\n", strings.Join(q.Values[i:j], " "))
		}
		fmt.Fprintf(s.in, "(echo \"%s\")\n", sent2)
		mt, ok := s.readUntil(sent2, time.Now().Add(30*time.Second))
		if !ok {
			s.kill()
			return res
		}
		parseModel(mt, res.Model, res.SModel)
	}
	p.put(s)
	return res
}

// SolveAll runs queries concurrently on up to p.N workers; results in input order.
func (p *Pool) SolveAll(qs []*Query) []Result {
	out := make([]Result, len(qs))
	var wg sync.WaitGroup
	sem := make(chan struct{}, p.N)
	for i := range qs {
		wg.Add(1)
		sem <- struct{}{}
		go func(i int) {
			defer wg.Done()
			defer func() { <-sem }()
			out[i] = p.Solve(qs[i])
		}(i)
	}
	wg.Wait()
	return out
}

// parseModel parses ((name value) ...) s-expressions.
func parseModel(text string, m map[string]*big.Int, sm map[string]string) {
	toks := tokenize(text)
	pos := 0
	var parse func() any
	parse = func() any {
		if pos >= len(toks) {
			return nil
		}
		t := toks[pos]
		pos++
		if t == "(" {
			var l []any
			for pos < len(toks) && toks[pos] != ")" {
				l = append(l, parse())
			}
			pos++
			return l
		}
		return t
	}
	for pos < len(toks) {
		top := parse()
		l, ok := top.([]any)
		if !ok {
			continue
		}
		for _, pr := range l {
			p2, ok := pr.([]any)
			if !ok || len(p2) != 2 {
				continue
			}
			name, ok := p2[0].(string)
			if !ok {
				continue
			}
			if v := evalInt(p2[1]); v != nil {
				m[name] = v
			}
			sm[name] = flat(p2[1])
		}
	}
}

func flat(x any) string {
	switch v := x.(type) {
	case string:
		return v
	case []any:
		parts := make([]string, len(v))
		for i := range v {
			parts[i] = flat(v[i])
		}
		return "(" + strings.Join(parts, " ") + ")"
	}
	return ""
}

func evalInt(x any) *big.Int {
	switch v := x.(type) {
	case string:
		if b, ok := new(big.Int).SetString(v, 10); ok {
			return b
		}
		if strings.HasPrefix(v, "#x") {
			if b, ok := new(big.Int).SetString(v[2:], 16); ok {
				return b
			}
		}
		if strings.HasPrefix(v, "#b") {
			if b, ok := new(big.Int).SetString(v[2:], 2); ok {
				return b
			}
		}
		if v == "true" {
			return big.NewInt(1)
		}
		if v == "false" {
			return big.NewInt(0)
		}
		return nil
	case []any:
		if len(v) == 2 {
			if op, ok := v[0].(string); ok && op == "-" {
				if a := evalInt(v[1]); a != nil {
					return new(big.Int).Neg(a)
				}
			}
		}
	}
	return nil
}

func tokenize(s string) []string {
	var toks []string
	i := 0
	for i < len(s) {
		c := s[i]
		switch {
		case c == '(' || c == ')':
			toks = append(toks, string(c))
			i++
		case c == ' ' || c == '\n' || c == '\t' || c == '\r':
			i++
		case c == '"':
			j := i + 1
			for j < len(s) {
				if s[j] == '"' {
					if j+1 < len(s) && s[j+1] == '"' {
						j += 2
						continue
					}
					break
				}
				j++
			}
			if j >= len(s) {
				j = len(s) - 1
			}
			toks = append(toks, s[i:j+1])
			i = j + 1
		default:
			j := i
			for j < len(s) && !strings.ContainsRune("() \n\t\r", rune(s[j])) {
				j++
			}
			toks = append(toks, s[i:j])
			i = j
		}
	}
	return toks
}
