module verif/engine

go 1.23

require (
	github.com/consensys/gnark v0.9.1
	github.com/consensys/gnark-crypto v0.12.2-0.20231013160410-1f65e75b6dfb
	github.com/rs/zerolog v1.30.0
	github.com/wormhole-foundation/example-near-light-client v0.0.0
	golang.org/x/tools v0.29.0
)

require (
	github.com/bits-and-blooms/bitset v1.10.0 // indirect
	github.com/blang/semver/v4 v4.0.0 // indirect
	github.com/consensys/bavard v0.1.13 // indirect
	github.com/davecgh/go-spew v1.1.1 // indirect
	github.com/fxamacker/cbor/v2 v2.5.0 // indirect
	github.com/google/pprof v0.0.0-20230817174616-7a8ec2ada47b // indirect
	github.com/holiman/uint256 v1.2.4 // indirect
	github.com/mattn/go-colorable v0.1.13 // indirect
	github.com/mattn/go-isatty v0.0.20 // indirect
	github.com/mmcloughlin/addchain v0.4.0 // indirect
	github.com/pmezard/go-difflib v1.0.0 // indirect
	github.com/stretchr/testify v1.8.4 // indirect
	github.com/x448/float16 v0.8.4 // indirect
	golang.org/x/crypto v0.18.0 // indirect
	golang.org/x/exp v0.0.0-20231110203233-9a3e6036ecaa // indirect
	golang.org/x/sys v0.29.0 // indirect
	gopkg.in/yaml.v3 v3.0.1 // indirect
	rsc.io/tmplfunc v0.0.3 // indirect
)

replace github.com/wormhole-foundation/example-near-light-client => /repo/gnark-plonky2-verifier

require github.com/ethereum/go-ethereum v1.13.10
