// Package poly implements sparse multivariate polynomials over the integers. It is used by the
// (untrusted) equivalence encoder to compute normal forms and p-divisibility certificates; the
// verdict on every identity is always the solver's.
package poly

import (
	"errors"
	"math/big"
	"sort"
	"strconv"
	"strings"
)

// Poly maps a monomial key ("" = constant; otherwise sorted variable ids joined by ',', repeated
// for powers) to its coefficient.
type Poly map[string]*big.Int

var ErrTooBig = errors.New("poly: term limit exceeded")

// Limit is the maximal number of monomials tolerated in intermediate results.
var Limit = 20000

func Const(c *big.Int) Poly {
	if c.Sign() == 0 {
		return Poly{}
	}
	return Poly{"": new(big.Int).Set(c)}
}

func Var(id int) Poly { return Poly{strconv.Itoa(id): big.NewInt(1)} }

func (p Poly) Clone() Poly {
	q := make(Poly, len(p))
	for k, v := range p {
		q[k] = new(big.Int).Set(v)
	}
	return q
}

func Add(a, b Poly) Poly {
	r := a.Clone()
	for k, v := range b {
		if c, ok := r[k]; ok {
			c.Add(c, v)
			if c.Sign() == 0 {
				delete(r, k)
			}
		} else {
			r[k] = new(big.Int).Set(v)
		}
	}
	return r
}

func Sub(a, b Poly) Poly {
	r := a.Clone()
	for k, v := range b {
		if c, ok := r[k]; ok {
			c.Sub(c, v)
			if c.Sign() == 0 {
				delete(r, k)
			}
		} else {
			r[k] = new(big.Int).Neg(v)
		}
	}
	return r
}

func mulKey(a, b string) string {
	if a == "" {
		return b
	}
	if b == "" {
		return a
	}
	x := strings.Split(a, ",")
	y := strings.Split(b, ",")
	z := append(x, y...)
	sort.Slice(z, func(i, j int) bool {
		if len(z[i]) != len(z[j]) {
			return len(z[i]) < len(z[j])
		}
		return z[i] < z[j]
	})
	return strings.Join(z, ",")
}

func Mul(a, b Poly) (Poly, error) {
	r := Poly{}
	if len(a)*len(b) > 4*Limit {
		return nil, ErrTooBig
	}
	for ka, va := range a {
		for kb, vb := range b {
			k := mulKey(ka, kb)
			c := new(big.Int).Mul(va, vb)
			if o, ok := r[k]; ok {
				o.Add(o, c)
				if o.Sign() == 0 {
					delete(r, k)
				}
			} else {
				r[k] = c
			}
		}
		if len(r) > Limit {
			return nil, ErrTooBig
		}
	}
	return r, nil
}

func (p Poly) IsZero() bool { return len(p) == 0 }

// DivisibleBy reports whether every coefficient is divisible by m and returns the quotient.
func (p Poly) DivisibleBy(m *big.Int) (Poly, bool) {
	q := Poly{}
	for k, v := range p {
		d, r := new(big.Int).QuoRem(v, m, new(big.Int))
		if r.Sign() != 0 {
			return nil, false
		}
		q[k] = d
	}
	return q, true
}

// SMT prints the polynomial as an SMT-LIB term; name maps variable ids to SMT names.
func (p Poly) SMT(name func(id int) string) string {
	if len(p) == 0 {
		return "0"
	}
	keys := make([]string, 0, len(p))
	for k := range p {
		keys = append(keys, k)
	}
	sort.Strings(keys)
	var terms []string
	for _, k := range keys {
		c := p[k]
		cs := c.String()
		if c.Sign() < 0 {
			cs = "(- " + new(big.Int).Neg(c).String() + ")"
		}
		if k == "" {
			terms = append(terms, cs)
			continue
		}
		parts := []string{cs}
		for _, s := range strings.Split(k, ",") {
			id, _ := strconv.Atoi(s)
			parts = append(parts, name(id))
		}
		terms = append(terms, "(* "+strings.Join(parts, " ")+")")
	}
	if len(terms) == 1 {
		return terms[0]
	}
	return "(+ " + strings.Join(terms, " ") + ")"
}
