// vinstr copies the Go module under verification into a scratch directory and instruments the
// copy, without changing behaviour when no hook is installed:
//
//   - every top-level function and method of the library packages gets a one-line prologue
//     `if h := verifhook.Hooks[key]; h != nil { return h(recv, args)... }` placed on the line of the
//     opening brace (line numbers stay those of /repo);
//   - every package gets zz_verif_export.go registering its functions, method expressions and
//     package-level variables in verifhook.Funcs / verifhook.Vars, so harnesses can reach
//     unexported code;
//   - package verifhook (tables only, no dependencies) is added.
//
// The set of instrumented keys is written to verifhook.Known so that a harness asking for a hook
// on a function that no longer exists fails loudly.
package main

import (
	"bytes"
	"fmt"
	"go/ast"
	"go/parser"
	"go/token"
	"io"
	"io/fs"
	"os"
	"path/filepath"
	"sort"
	"strings"
)

const modPath = "github.com/wormhole-foundation/example-near-light-client"

var libDirs = []string{"goldilocks", "poseidon", "challenger", "fri", "plonk", "plonk/gates", "verifier", "variables", "types"}

func die(f string, a ...any) {
	fmt.Fprintf(os.Stderr, "vinstr: "+f+"\n", a...)
	os.Exit(2)
}

func copyTree(src, dst string) {
	err := filepath.WalkDir(src, func(p string, d fs.DirEntry, err error) error {
		if err != nil {
			return err
		}
		rel, _ := filepath.Rel(src, p)
		if d.IsDir() {
			if d.Name() == ".git" || d.Name() == "build" {
				return filepath.SkipDir
			}
			return os.MkdirAll(filepath.Join(dst, rel), 0o755)
		}
		if !d.Type().IsRegular() {
			return nil
		}
		in, err := os.Open(p)
		if err != nil {
			return err
		}
		defer in.Close()
		out, err := os.Create(filepath.Join(dst, rel))
		if err != nil {
			return err
		}
		defer out.Close()
		_, err = io.Copy(out, in)
		return err
	})
	if err != nil {
		die("copy: %v", err)
	}
}

type insertion struct {
	off  int
	text string
}

func typeText(src []byte, fset *token.FileSet, e ast.Expr) string {
	return string(src[fset.Position(e.Pos()).Offset:fset.Position(e.End()).Offset])
}

func recvName(fd *ast.FuncDecl) (typeName string, ptr bool, varName string, ok bool) {
	if fd.Recv == nil || len(fd.Recv.List) == 0 {
		return "", false, "", true
	}
	f := fd.Recv.List[0]
	t := f.Type
	if s, isStar := t.(*ast.StarExpr); isStar {
		ptr = true
		t = s.X
	}
	id, isId := t.(*ast.Ident)
	if !isId {
		return "", false, "", false // generic receiver etc.
	}
	if len(f.Names) == 1 && f.Names[0].Name != "_" {
		varName = f.Names[0].Name
	}
	return id.Name, ptr, varName, true
}

func main() {
	if len(os.Args) != 3 {
		die("usage: vinstr <src module dir> <dst dir>")
	}
	src, dst := os.Args[1], os.Args[2]
	copyTree(src, dst)

	var known []string
	for _, dir := range libDirs {
		full := filepath.Join(dst, dir)
		ents, err := os.ReadDir(full)
		if err != nil {
			die("library package %s missing: %v", dir, err)
		}
		var exports []string
		pkgName := ""
		for _, ent := range ents {
			name := ent.Name()
			if ent.IsDir() || !strings.HasSuffix(name, ".go") || strings.HasSuffix(name, "_test.go") || strings.HasPrefix(name, "zz_verif") {
				continue
			}
			path := filepath.Join(full, name)
			data, err := os.ReadFile(path)
			if err != nil {
				die("%v", err)
			}
			fset := token.NewFileSet()
			file, err := parser.ParseFile(fset, path, data, parser.ParseComments)
			if err != nil {
				die("parse %s: %v", path, err)
			}
			pkgName = file.Name.Name
			var ins []insertion
			for _, d := range file.Decls {
				switch fd := d.(type) {
				case *ast.GenDecl:
					if fd.Tok != token.VAR {
						continue
					}
					for _, sp := range fd.Specs {
						vs := sp.(*ast.ValueSpec)
						for _, n := range vs.Names {
							if n.Name == "_" {
								continue
							}
							exports = append(exports, fmt.Sprintf("\tverifhook.Vars[%q] = &%s", pkgName+"."+n.Name, n.Name))
						}
					}
				case *ast.FuncDecl:
					if fd.Body == nil || fd.Name.Name == "init" || fd.Type.TypeParams != nil {
						continue
					}
					rt, ptr, rv, ok := recvName(fd)
					if !ok {
						continue
					}
					key := pkgName + "." + fd.Name.Name
					expr := fd.Name.Name
					if rt != "" {
						key = pkgName + "." + rt + "." + fd.Name.Name
						if ptr {
							expr = "(*" + rt + ")." + fd.Name.Name
						} else {
							expr = rt + "." + fd.Name.Name
						}
					}
					exports = append(exports, fmt.Sprintf("\tverifhook.Funcs[%q] = %s", key, expr))
					// prologue
					if rt != "" && rv == "" {
						continue
					}
					var args []string
					hookable := true
					for _, p := range fd.Type.Params.List {
						if len(p.Names) == 0 {
							hookable = false
						}
						for _, n := range p.Names {
							if n.Name == "_" {
								// a blank parameter cannot be referenced: the hook sees nil in its place
								args = append(args, "nil")
								continue
							}
							args = append(args, n.Name)
						}
					}
					if !hookable {
						continue
					}
					recv := "nil"
					if rt != "" {
						recv = rv
					}
					var rets []string
					if fd.Type.Results != nil {
						k := 0
						for _, r := range fd.Type.Results.List {
							n := len(r.Names)
							if n == 0 {
								n = 1
							}
							for j := 0; j < n; j++ {
								rets = append(rets, fmt.Sprintf("verifhook.As[%s](vr__[%d])", typeText(data, fset, r.Type), k))
								k++
							}
						}
					}
					var pro string
					if len(rets) == 0 {
						pro = fmt.Sprintf(" if vh__ := verifhook.Hooks[%q]; vh__ != nil { vh__(%s, []any{%s}); return };", key, recv, strings.Join(args, ", "))
					} else {
						pro = fmt.Sprintf(" if vh__ := verifhook.Hooks[%q]; vh__ != nil { vr__ := vh__(%s, []any{%s}); return %s };", key, recv, strings.Join(args, ", "), strings.Join(rets, ", "))
					}
					ins = append(ins, insertion{fset.Position(fd.Body.Lbrace).Offset + 1, pro})
					known = append(known, key)
				}
			}
			if len(ins) == 0 {
				continue
			}
			ins = append(ins, insertion{fset.Position(file.Name.End()).Offset, fmt.Sprintf("; import verifhook %q", modPath+"/verifhook")})
			sort.Slice(ins, func(i, j int) bool { return ins[i].off < ins[j].off })
			var out bytes.Buffer
			prev := 0
			for _, in := range ins {
				out.Write(data[prev:in.off])
				out.WriteString(in.text)
				prev = in.off
			}
			out.Write(data[prev:])
			if err := os.WriteFile(path, out.Bytes(), 0o644); err != nil {
				die("%v", err)
			}
		}
		if pkgName != "" {
			var sb strings.Builder
			fmt.Fprintf(&sb, "// Code generated by vinstr. DO NOT EDIT.\npackage %s\n\nimport verifhook %q\n\nfunc init() {\n", pkgName, modPath+"/verifhook")
			sb.WriteString(strings.Join(exports, "\n"))
			sb.WriteString("\n}\n")
			if err := os.WriteFile(filepath.Join(full, "zz_verif_export.go"), []byte(sb.String()), 0o644); err != nil {
				die("%v", err)
			}
		}
	}
	sort.Strings(known)
	var sb strings.Builder
	sb.WriteString(`// Code generated by vinstr. DO NOT EDIT.
// Package verifhook holds the hook and export tables used by the verification harness. With all
// tables empty the instrumented code behaves exactly like the original.
package verifhook

// Hooks maps "pkg.Recv.Func" to a replacement body. recv is the receiver (nil for functions).
var Hooks = map[string]func(recv any, args []any) []any{}

// Funcs holds every function / method expression of the library packages.
var Funcs = map[string]any{}

// Vars holds pointers to the package-level variables.
var Vars = map[string]any{}

// As converts a hook result to the declared result type (nil -> zero value).
func As[T any](v any) T {
	if v == nil {
		var z T
		return z
	}
	return v.(T)
}

// Known lists the keys that carry a hook prologue.
var Known = map[string]bool{
`)
	for _, k := range known {
		fmt.Fprintf(&sb, "\t%q: true,\n", k)
	}
	sb.WriteString("}\n")
	os.MkdirAll(filepath.Join(dst, "verifhook"), 0o755)
	if err := os.WriteFile(filepath.Join(dst, "verifhook", "hook.go"), []byte(sb.String()), 0o644); err != nil {
		die("%v", err)
	}
	fmt.Printf("vinstr: %d functions instrumented in %s\n", len(known), dst)
}
