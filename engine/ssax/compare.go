package ssax

import (
	"fmt"
	"go/types"
)

// TV is a value together with its Go type (for navigation by field name).
type TV struct {
	V Val
	T types.Type
}

func structOf(t types.Type) *types.Struct {
	for {
		switch u := t.Underlying().(type) {
		case *types.Struct:
			return u
		case *types.Pointer:
			t = u.Elem()
		default:
			return nil
		}
	}
}

// F selects a struct field by name (through a pointer if needed).
func (a TV) F(x *Exec, name string) TV {
	v := a.V
	t := a.T
	if p, ok := v.(*PtrV); ok {
		v = x.Load(p)
		t = t.Underlying().(*types.Pointer).Elem()
	}
	st := structOf(t)
	sv, ok := v.(*StructV)
	if st == nil || !ok {
		panic(unsupported{fmt.Sprintf("field %s of non-struct %s", name, a.T)})
	}
	for i := 0; i < st.NumFields(); i++ {
		if st.Field(i).Name() == name {
			return TV{sv.F[i], st.Field(i).Type()}
		}
	}
	panic(unsupported{fmt.Sprintf("no field %s in %s", name, a.T)})
}

// Slice returns the slice value.
func (a TV) Slice() *SliceV {
	s, ok := a.V.(*SliceV)
	if !ok {
		panic(unsupported{fmt.Sprintf("slice expected, got %T (%s)", a.V, a.T)})
	}
	return s
}

// Mat is the number of materialised elements of the slice.
func (a TV) Mat() int {
	s := a.Slice()
	if s.B == nil {
		return 0
	}
	n := len(s.B.Cells) - s.Off
	if s.Len.K != nil && s.Len.Int() < n {
		n = s.Len.Int()
	}
	return n
}

// At returns element i of a slice or array.
func (a TV) At(i int) TV {
	switch v := a.V.(type) {
	case *SliceV:
		return TV{v.B.Cells[v.Off+i].V, a.T.Underlying().(*types.Slice).Elem()}
	case *ArrayV:
		return TV{v.E[i], a.T.Underlying().(*types.Array).Elem()}
	}
	panic(unsupported{fmt.Sprintf("element of %T", a.V)})
}

// MkStruct builds a struct value of type t from named fields (missing fields are zero).
func MkStruct(t types.Type, fields map[string]Val) *StructV {
	st := structOf(t)
	s := &StructV{F: make([]Val, st.NumFields())}
	for i := range s.F {
		if v, ok := fields[st.Field(i).Name()]; ok {
			s.F[i] = v
		} else {
			s.F[i] = Zero(st.Field(i).Type())
		}
	}
	return s
}

// FieldType returns the type of the named field of struct type t.
func FieldType(t types.Type, name string) types.Type {
	st := structOf(t)
	for i := 0; i < st.NumFields(); i++ {
		if st.Field(i).Name() == name {
			return st.Field(i).Type()
		}
	}
	panic(unsupported{fmt.Sprintf("no field %s in %s", name, t)})
}

// MapSlice builds a slice with the same (symbolic) length as in whose cells are f(cell).
func MapSlice(in *SliceV, elemT types.Type, f func(i int, v Val) Val) *SliceV {
	out := &SliceV{Len: in.Len, Cap: in.Cap, B: &Backing{ElemT: elemT}}
	if in.B != nil {
		for i := in.Off; i < len(in.B.Cells); i++ {
			out.B.Cells = append(out.B.Cells, &Cell{V: f(i-in.Off, in.B.Cells[i].V)})
		}
	}
	return out
}

// Diff collects the conditions under which two values differ.
type Diff struct {
	X     *Exec
	Conds []string // each: SMT Boolean "values differ here"
	Where []string
	Hard  []string // structural differences that hold on the whole path
}

func (d *Diff) add(guard []string, cond, where string) {
	c := cond
	if len(guard) > 0 {
		c = "(and"
		for _, g := range guard {
			c += " " + g
		}
		c += " " + cond + ")"
	}
	d.Conds = append(d.Conds, c)
	d.Where = append(d.Where, where)
}

func ext128(t *Term, signed bool) string {
	if t.W == 128 {
		return t.SMT()
	}
	return Resize(t, 128, signed).SMT()
}

// Eq compares got with want below the guard.
func (d *Diff) Eq(got, want Val, guard []string, where string) {
	switch w := want.(type) {
	case *Term:
		g, ok := got.(*Term)
		if !ok || g.W != w.W {
			d.add(guard, "true", where+": scalar of another width/kind")
			return
		}
		if g.SMT() != w.SMT() {
			if w.W == 0 {
				d.add(guard, "(distinct "+g.SMT()+" "+w.SMT()+")", where)
			} else {
				d.add(guard, "(distinct "+g.SMT()+" "+w.SMT()+")", where)
			}
		}
	case *StructV:
		g, ok := got.(*StructV)
		if !ok || len(g.F) != len(w.F) {
			d.add(guard, "true", where+": not the same struct layout")
			return
		}
		for i := range w.F {
			d.Eq(g.F[i], w.F[i], guard, fmt.Sprintf("%s.#%d", where, i))
		}
	case *ArrayV:
		g, ok := got.(*ArrayV)
		if !ok || len(g.E) != len(w.E) {
			d.add(guard, "true", where+": not the same array length")
			return
		}
		for i := range w.E {
			d.Eq(g.E[i], w.E[i], guard, fmt.Sprintf("%s[%d]", where, i))
		}
	case *IfaceV:
		g, ok := got.(*IfaceV)
		if !ok {
			d.add(guard, "true", where+": not an interface value")
			return
		}
		if (g.T == nil) != (w.T == nil) {
			d.add(guard, "true", where+": nil / non-nil interface")
			return
		}
		if w.T == nil {
			return
		}
		// numeric dynamic types: compare the represented integers
		wg, sg, okg := width(g.T)
		ww, sw, okw := width(w.T)
		if okg && okw && wg > 0 && ww > 0 {
			a, b := ext128(asTerm(g.V), sg), ext128(asTerm(w.V), sw)
			if a != b {
				d.add(guard, "(distinct "+a+" "+b+")", where)
			}
			return
		}
		if !types.Identical(g.T, w.T) {
			d.add(guard, "true", where+fmt.Sprintf(": dynamic type %s, expected %s", g.T, w.T))
			return
		}
		d.Eq(g.V, w.V, guard, where)
	case *SliceV:
		g, ok := got.(*SliceV)
		if !ok {
			d.add(guard, "true", where+": not a slice")
			return
		}
		if g.Len.SMT() != w.Len.SMT() {
			d.add(guard, "(distinct "+g.Len.SMT()+" "+w.Len.SMT()+")", where+".len")
		}
		mw := 0
		if w.B != nil {
			mw = len(w.B.Cells) - w.Off
		}
		if w.Len.K != nil && w.Len.Int() < mw {
			mw = w.Len.Int()
		}
		for i := 0; i < mw; i++ {
			gi := append(append([]string{}, guard...), fmt.Sprintf("(bvult (_ bv%d 64) %s)", i, w.Len.SMT()))
			if w.Len.K != nil {
				gi = guard
			}
			if g.B == nil || g.Off+i >= len(g.B.Cells) {
				d.add(gi, "true", fmt.Sprintf("%s[%d]: missing", where, i))
				continue
			}
			d.Eq(g.B.Cells[g.Off+i].V, w.B.Cells[w.Off+i].V, gi, fmt.Sprintf("%s[%d]", where, i))
		}
	case *StrV:
		g, ok := got.(*StrV)
		same := ok && ((g.K != nil && w.K != nil && *g.K == *w.K) || (g.K == nil && w.K == nil && g.S == w.S))
		if !same {
			d.add(guard, "true", where+": another string")
		}
	case *Opaque:
		if gp, isPtr := got.(*PtrV); isPtr && !gp.IsNil() {
			got = d.X.Load(gp) // a tracked pointer to an opaque number (big.Int): compare the number
		}
		g, ok := got.(*Opaque)
		if !ok || g.Tag != w.Tag || len(g.Args) != len(w.Args) {
			d.add(guard, "true", where+": made differently ("+fmt.Sprintf("%v", describe(got))+", expected "+describe(want)+")")
			return
		}
		for i := range w.Args {
			d.Eq(g.Args[i], w.Args[i], guard, where+"/"+w.Tag)
		}
	case *PtrV:
		g, ok := got.(*PtrV)
		if !ok || g.IsNil() != w.IsNil() {
			d.add(guard, "true", where+": nil / non-nil pointer")
			return
		}
		if !w.IsNil() {
			d.Eq(d.X.Load(g), d.X.Load(w), guard, where)
		}
	case nil:
		if got != nil {
			d.add(guard, "true", where+": value where none is expected")
		}
	default:
		panic(unsupported{fmt.Sprintf("comparison of %T", want)})
	}
}

func describe(v Val) string {
	switch x := v.(type) {
	case *Opaque:
		s := x.Tag + "("
		for i, a := range x.Args {
			if i > 0 {
				s += ", "
			}
			s += describe(a)
		}
		return s + ")"
	case *StrV:
		if x.K != nil {
			return fmt.Sprintf("%q", *x.K)
		}
		return x.S
	case *Term:
		return x.SMT()
	}
	return fmt.Sprintf("%T", v)
}

// Unsupported lets callers signal an inconclusive situation in the executor's way.
func Unsupported(msg string) { panic(unsupported{msg}) }
