package ssax

import (
	"fmt"
	"go/constant"
	"go/token"
	"go/types"
	"math/big"
	"os"
	"sort"
	"strings"
	"sync"

	"golang.org/x/tools/go/packages"
	"golang.org/x/tools/go/ssa"
	"golang.org/x/tools/go/ssa/ssautil"
)

// Program is the SSA form of the repository packages, built from the working tree.
type Program struct {
	Prog *ssa.Program
	Pkgs map[string]*ssa.Package // by import path
	Mod  string                  // module path prefix of the code that is executed (everything else needs a stub)
}

// Load type-checks the packages matching patterns under dir and builds their SSA.
func Load(dir, mod string, patterns ...string) (*Program, error) {
	cfg := &packages.Config{
		Mode: packages.NeedName | packages.NeedFiles | packages.NeedCompiledGoFiles | packages.NeedImports | packages.NeedDeps | packages.NeedTypes | packages.NeedSyntax | packages.NeedTypesInfo | packages.NeedTypesSizes | packages.NeedModule,
		Dir:  dir,
		Env:  append(os.Environ(), "GOFLAGS=-mod=mod", "GOPROXY=off", "GOSUMDB=off", "GOTOOLCHAIN=local"),
	}
	pkgs, err := packages.Load(cfg, patterns...)
	if err != nil {
		return nil, err
	}
	for _, p := range pkgs {
		if len(p.Errors) > 0 {
			return nil, fmt.Errorf("package %s: %v", p.PkgPath, p.Errors[0])
		}
	}
	prog, spkgs := ssautil.AllPackages(pkgs, ssa.InstantiateGenerics)
	out := &Program{Prog: prog, Pkgs: map[string]*ssa.Package{}, Mod: mod}
	for i, sp := range spkgs {
		if sp != nil {
			out.Pkgs[pkgs[i].PkgPath] = sp
		}
	}
	for _, sp := range prog.AllPackages() {
		if strings.HasPrefix(sp.Pkg.Path(), mod) {
			sp.Build()
			out.Pkgs[sp.Pkg.Path()] = sp
		}
	}
	return out, nil
}

// Func finds a package-level function or a method ("pkgpath", "Name") / ("pkgpath", "(*T).Name").
func (p *Program) Func(pkg, name string) *ssa.Function {
	sp := p.Pkgs[pkg]
	if sp == nil {
		return nil
	}
	if !strings.HasPrefix(name, "(") {
		return sp.Func(name)
	}
	// method
	ptr := strings.HasPrefix(name, "(*")
	close := strings.Index(name, ")")
	tn := strings.TrimPrefix(strings.TrimPrefix(name[:close], "("), "*")
	mn := name[close+2:]
	t := sp.Type(tn)
	if t == nil {
		return nil
	}
	var recv types.Type = t.Type()
	if ptr {
		recv = types.NewPointer(recv)
	}
	return p.Prog.LookupMethod(recv, sp.Pkg, mn)
}

// Stub replaces a function that is not executed (foreign code, environment).
type Stub func(x *Exec, args []Val, call *ssa.CallCommon) Val

// Path is one explored execution.
type Path struct {
	PC        []string // path condition (SMT Booleans), conjunction
	Kind      string   // "return" | "panic" | "unsupported" | "budget"
	Ret       Val
	Msg       string
	Decisions []bool
	Forks     int
	Decls     []string
	Assume    []string
	Post      any // result of the post-processing callback (run in the path's final state)
}

// Script returns declarations, input assumptions, the path condition and extra assertions.
func (p *Path) Script(extra ...string) string {
	var sb strings.Builder
	for _, d := range p.Decls {
		sb.WriteString(d)
		sb.WriteByte('\n')
	}
	for _, l := range [][]string{p.Assume, p.PC, extra} {
		for _, a := range l {
			sb.WriteString("(assert " + a + ")\n")
		}
	}
	return sb.String()
}

type Exec struct {
	P     *Program
	Stubs map[string]Stub
	// Feasible decides satisfiability of decls+assumptions+pc+cond; "unknown" is treated as feasible.
	Feasible func(script string) string
	Decls    []string
	Assume   []string
	pc       []string
	dec      []bool
	dpos     int
	work     [][]bool
	steps    int
	MaxSteps int
	fresh    int
	forks    int
	Queries  int
	Globals  map[*ssa.Global]*Cell
	Notes    []string
}

func NewExec(p *Program) *Exec {
	return &Exec{P: p, Stubs: map[string]Stub{}, MaxSteps: 400000}
}

func (x *Exec) Fresh(prefix string) string {
	x.fresh++
	return fmt.Sprintf("%s!%d", prefix, x.fresh)
}

// Declare adds a symbolic scalar.
func (x *Exec) Declare(name string, w int) *Term {
	if w == 0 {
		x.Decls = append(x.Decls, fmt.Sprintf("(declare-const %s Bool)", name))
	} else {
		x.Decls = append(x.Decls, fmt.Sprintf("(declare-const %s (_ BitVec %d))", name, w))
	}
	return Sym(w, name)
}

func (x *Exec) script(extra ...string) string {
	var sb strings.Builder
	for _, d := range x.Decls {
		sb.WriteString(d)
		sb.WriteByte('\n')
	}
	for _, a := range x.Assume {
		sb.WriteString("(assert " + a + ")\n")
	}
	for _, a := range x.pc {
		sb.WriteString("(assert " + a + ")\n")
	}
	for _, a := range extra {
		sb.WriteString("(assert " + a + ")\n")
	}
	return sb.String()
}

// Script returns declarations, assumptions and the given path condition as an SMT script.
func (x *Exec) Script(pc []string, extra ...string) string {
	old := x.pc
	x.pc = pc
	s := x.script(extra...)
	x.pc = old
	return s
}

// decide resolves a branch on c; both sides are explored when both are feasible.
func (x *Exec) decide(c *Term) bool {
	if c.K != nil {
		return c.IsTrue()
	}
	if x.dpos < len(x.dec) {
		d := x.dec[x.dpos]
		x.dpos++
		if d {
			x.pc = append(x.pc, c.SMT())
		} else {
			x.pc = append(x.pc, Not(c).SMT())
		}
		return d
	}
	// already decided by the path condition (syntactically)
	cs, ncs := c.SMT(), Not(c).SMT()
	for _, a := range x.pc {
		if a == cs || a == ncs {
			d := a == cs
			x.dec = append(x.dec, d)
			x.dpos++
			return d
		}
	}
	x.Queries += 2
	ft := x.Feasible(x.script(c.SMT())) != "unsat"
	ff := x.Feasible(x.script(Not(c).SMT())) != "unsat"
	var d bool
	switch {
	case ft && ff:
		alt := append(append([]bool{}, x.dec...), false)
		x.work = append(x.work, alt)
		x.forks++
		d = true
	case ft:
		d = true
	case ff:
		d = false
	default:
		panic(pathDead{})
	}
	x.dec = append(x.dec, d)
	x.dpos++
	if d {
		x.pc = append(x.pc, c.SMT())
	} else {
		x.pc = append(x.pc, Not(c).SMT())
	}
	return d
}

type pathDead struct{}

// Explore runs, along every feasible path, the function and arguments produced by mk (called once
// per path on a fresh executor made by newX; it must be deterministic). workers paths are explored
// concurrently.
func Explore(workers int, newX func() *Exec, mk func(x *Exec) (*ssa.Function, []Val), maxPaths int) ([]Path, int) {
	return ExploreWith(workers, newX, func(x *Exec) (*ssa.Function, []Val, func(Val) any) {
		f, a := mk(x)
		return f, a, nil
	}, maxPaths)
}

// ExploreWith is Explore with a callback that is run on the result of every returning path while
// the executor still holds the path's memory (it may load through pointers, declare symbols, and
// signal Unsupported).
func ExploreWith(workers int, newX func() *Exec, mk func(x *Exec) (*ssa.Function, []Val, func(Val) any), maxPaths int) ([]Path, int) {
	var mu sync.Mutex
	cond := sync.NewCond(&mu)
	work := [][]bool{{}}
	inflight := 0
	var out []Path
	queries := 0
	over := false
	var wg sync.WaitGroup
	for w := 0; w < workers; w++ {
		wg.Add(1)
		go func() {
			defer wg.Done()
			x := newX()
			baseDecls, baseAssume := len(x.Decls), len(x.Assume)
			for {
				mu.Lock()
				for len(work) == 0 && inflight > 0 {
					cond.Wait()
				}
				if len(work) == 0 || over {
					mu.Unlock()
					cond.Broadcast()
					return
				}
				d := work[len(work)-1]
				work = work[:len(work)-1]
				inflight++
				mu.Unlock()
				x.Decls, x.Assume = x.Decls[:baseDecls], x.Assume[:baseAssume]
				x.pc, x.dec, x.dpos, x.steps, x.fresh, x.forks = nil, d, 0, 0, 0, 0
				x.work = nil
				x.Globals = map[*ssa.Global]*Cell{}
				p := Path{}
				func() {
					defer func() {
						if r := recover(); r != nil {
							switch e := r.(type) {
							case goPanic:
								p.Kind, p.Msg = "panic", e.msg
							case unsupported:
								p.Kind, p.Msg = "unsupported", e.msg
							case pathDead:
								p.Kind = "dead"
							default:
								panic(r)
							}
						}
					}()
					fn, args, post := mk(x)
					p.Ret = x.Run(fn, args)
					if post != nil {
						p.Post = post(p.Ret)
					}
					p.Kind = "return"
				}()
				p.PC = append([]string{}, x.pc...)
				p.Decisions = append([]bool{}, x.dec...)
				p.Forks = x.forks
				p.Decls = append([]string{}, x.Decls...)
				p.Assume = append([]string{}, x.Assume...)
				mu.Lock()
				work = append(work, x.work...)
				inflight--
				queries += x.Queries
				x.Queries = 0
				if p.Kind != "dead" {
					out = append(out, p)
					if len(out) >= maxPaths && !over {
						over = true
						out = append(out, Path{Kind: "budget", Msg: fmt.Sprintf("more than %d paths", maxPaths)})
					}
				}
				mu.Unlock()
				cond.Broadcast()
			}
		}()
	}
	wg.Wait()
	// deterministic order: by decision vector
	sort.Slice(out, func(i, j int) bool { return decKey(out[i].Decisions) < decKey(out[j].Decisions) })
	return out, queries
}

func decKey(d []bool) string {
	b := make([]byte, len(d))
	for i, v := range d {
		if v {
			b[i] = '1'
		} else {
			b[i] = '0'
		}
	}
	return string(b)
}

type frame struct {
	fn     *ssa.Function
	env    map[ssa.Value]Val
	defers []func()
}

func (x *Exec) constVal(c *ssa.Const) Val {
	t := c.Type()
	if c.Value == nil {
		return Zero(t)
	}
	if b, ok := t.Underlying().(*types.Basic); ok {
		if b.Info()&types.IsString != 0 {
			return Str(constant.StringVal(c.Value))
		}
		if w, _, ok := width(t); ok {
			if w == 0 {
				return Bool(constant.BoolVal(c.Value))
			}
			v, _ := new(big.Int).SetString(c.Value.ExactString(), 10)
			if v == nil {
				panic(unsupported{"constant " + c.Value.ExactString()})
			}
			return BV(w, v)
		}
	}
	if _, ok := t.Underlying().(*types.Interface); ok {
		return &IfaceV{}
	}
	panic(unsupported{"constant of type " + t.String()})
}

func (x *Exec) get(fr *frame, v ssa.Value) Val {
	switch c := v.(type) {
	case *ssa.Const:
		return x.constVal(c)
	case *ssa.Function:
		return &FuncV{Fn: c}
	case *ssa.Global:
		cell, ok := x.Globals[c]
		if !ok {
			panic(unsupported{"global " + c.String()})
		}
		return &PtrV{Root: cell}
	case *ssa.Builtin:
		return &FuncV{Fn: c}
	}
	r, ok := fr.env[v]
	if !ok {
		panic(unsupported{"no value for " + v.Name() + " in " + fr.fn.String()})
	}
	return r
}

func (x *Exec) slot(p *PtrV) *Val {
	if p.Root == nil {
		panic(goPanic{"invalid memory address or nil pointer dereference"})
	}
	cur := &p.Root.V
	for _, i := range p.Path {
		switch c := (*cur).(type) {
		case *StructV:
			cur = &c.F[i]
		case *ArrayV:
			cur = &c.E[i]
		default:
			panic(unsupported{fmt.Sprintf("path into %T", *cur)})
		}
	}
	return cur
}

func (x *Exec) Load(p *PtrV) Val {
	if p.Arr != nil {
		a := &ArrayV{E: make([]Val, p.N)}
		for i := 0; i < p.N; i++ {
			a.E[i] = copyVal(p.Arr.Cells[p.Off+i].V)
		}
		return a
	}
	return copyVal(*x.slot(p))
}

func (x *Exec) Store(p *PtrV, v Val) {
	if p.Arr != nil {
		a := v.(*ArrayV)
		for i := 0; i < p.N; i++ {
			p.Arr.Cells[p.Off+i].V = copyVal(a.E[i])
		}
		return
	}
	*x.slot(p) = copyVal(v)
}

func (x *Exec) cellAt(b *Backing, i int) *Cell {
	for b.Grow && i >= len(b.Cells) {
		if len(b.Cells) > 4096 {
			panic(unsupported{"slice of symbolic length grows beyond 4096 elements (unwinding)"})
		}
		b.Cells = append(b.Cells, &Cell{V: Zero(b.ElemT)})
	}
	if i >= len(b.Cells) {
		// beyond the materialised bound: only reachable when the length assumption is missing
		panic(unsupported{"index beyond the materialised bound of a symbolic slice (unwinding)"})
	}
	return b.Cells[i]
}

func (x *Exec) inBounds(idx, n *Term, inclusive bool) {
	i64 := idx
	lo := BinOp(token.GEQ, i64, BVu(64, 0), true, true)
	op := token.LSS
	if inclusive {
		op = token.LEQ
	}
	hi := BinOp(op, i64, n, true, true)
	if !x.decide(And(lo, hi)) {
		panic(goPanic{"index out of range"})
	}
}

func asTerm(v Val) *Term {
	t, ok := v.(*Term)
	if !ok {
		panic(unsupported{fmt.Sprintf("scalar expected, got %T", v)})
	}
	return t
}

func (x *Exec) concInt(v Val, what string) int {
	t := asTerm(v)
	if t.K == nil {
		panic(unsupported{"symbolic " + what})
	}
	return int(t.signed().Int64())
}

// Run executes fn on args and returns its result (a TupleV for several results).
func (x *Exec) Run(fn *ssa.Function, args []Val) Val {
	if st, ok := x.Stubs[fn.String()]; ok {
		return st(x, args, nil)
	}
	if fn.Blocks == nil {
		panic(unsupported{"no body for " + fn.String()})
	}
	pkg := fn.Pkg
	if pkg == nil && fn.Origin() != nil {
		pkg = fn.Origin().Pkg
	}
	if pkg == nil || !strings.HasPrefix(pkg.Pkg.Path(), x.P.Mod) {
		panic(unsupported{"call of foreign function " + fn.String() + " (no stub)"})
	}
	fr := &frame{fn: fn, env: map[ssa.Value]Val{}}
	for i, p := range fn.Params {
		fr.env[p] = args[i]
	}
	var prev *ssa.BasicBlock
	b := fn.Blocks[0]
	for {
		var next *ssa.BasicBlock
		// phis first (parallel assignment)
		var phiVals []Val
		var phis []*ssa.Phi
		for _, in := range b.Instrs {
			ph, ok := in.(*ssa.Phi)
			if !ok {
				break
			}
			for i, pb := range b.Preds {
				if pb == prev {
					phiVals = append(phiVals, x.get(fr, ph.Edges[i]))
					phis = append(phis, ph)
					break
				}
			}
		}
		for i, ph := range phis {
			fr.env[ph] = phiVals[i]
		}
		for _, in := range b.Instrs {
			x.steps++
			if x.steps > x.MaxSteps {
				panic(unsupported{"step budget exhausted (unwinding)"})
			}
			switch i := in.(type) {
			case *ssa.Phi:
			case *ssa.Jump:
				next = b.Succs[0]
			case *ssa.If:
				if x.decide(asTerm(x.get(fr, i.Cond))) {
					next = b.Succs[0]
				} else {
					next = b.Succs[1]
				}
			case *ssa.Return:
				for k := len(fr.defers) - 1; k >= 0; k-- {
					fr.defers[k]()
				}
				fr.defers = nil
				switch len(i.Results) {
				case 0:
					return nil
				case 1:
					return x.get(fr, i.Results[0])
				}
				t := &TupleV{}
				for _, r := range i.Results {
					t.E = append(t.E, x.get(fr, r))
				}
				return t
			case *ssa.Panic:
				panic(goPanic{x.panicText(x.get(fr, i.X))})
			case *ssa.RunDefers:
				for k := len(fr.defers) - 1; k >= 0; k-- {
					fr.defers[k]()
				}
				fr.defers = nil
			case *ssa.Defer:
				cc := i.Call
				fv, args := x.prepCall(fr, &cc)
				fr.defers = append(fr.defers, func() { x.invoke(fv, args, &cc) })
			case *ssa.Store:
				x.Store(x.get(fr, i.Addr).(*PtrV), x.get(fr, i.Val))
			case *ssa.MapUpdate:
				m := x.get(fr, i.Map).(*MapV)
				if m.M == nil {
					panic(goPanic{"assignment to entry in nil map"})
				}
				k := x.get(fr, i.Key)
				ks := keyString(k)
				if _, ok := m.M[ks]; !ok {
					m.Keys = append(m.Keys, k)
				}
				m.M[ks] = copyVal(x.get(fr, i.Value))
			case *ssa.DebugRef:
			case ssa.Value:
				fr.env[i] = x.eval(fr, i)
			default:
				panic(unsupported{fmt.Sprintf("instruction %T", in)})
			}
		}
		if next == nil {
			panic(unsupported{"block without terminator"})
		}
		prev, b = b, next
	}
}

func keyString(k Val) string {
	switch v := k.(type) {
	case *Term:
		if v.K == nil {
			panic(unsupported{"symbolic map key"})
		}
		return v.K.String()
	case *StrV:
		if v.K == nil {
			panic(unsupported{"opaque string as map key"})
		}
		return "s:" + *v.K
	}
	panic(unsupported{fmt.Sprintf("map key %T", k)})
}

func (x *Exec) panicText(v Val) string {
	if iv, ok := v.(*IfaceV); ok {
		switch s := iv.V.(type) {
		case *StrV:
			if s.K != nil {
				return *s.K
			}
			return "<" + s.S + ">"
		case *Opaque:
			return "<" + s.Tag + ">"
		}
		return fmt.Sprintf("<%T>", iv.V)
	}
	return fmt.Sprintf("<%T>", v)
}

func (x *Exec) prepCall(fr *frame, c *ssa.CallCommon) (Val, []Val) {
	var args []Val
	if c.IsInvoke() {
		recv, ok := x.get(fr, c.Value).(*IfaceV)
		if !ok || recv.T == nil {
			panic(goPanic{"invalid memory address or nil pointer dereference (method call on nil interface)"})
		}
		fn := x.P.Prog.LookupMethod(recv.T, c.Method.Pkg(), c.Method.Name())
		if fn == nil {
			// stub by interface method name
			key := "(" + recv.T.String() + ")." + c.Method.Name()
			if _, ok := x.Stubs[key]; ok {
				args = append(args, recv.V)
				for _, a := range c.Args {
					args = append(args, x.get(fr, a))
				}
				return key, args
			}
			panic(unsupported{"method " + c.Method.Name() + " of " + recv.T.String()})
		}
		args = append(args, recv.V)
		for _, a := range c.Args {
			args = append(args, x.get(fr, a))
		}
		return &FuncV{Fn: fn}, args
	}
	fv := x.get(fr, c.Value)
	for _, a := range c.Args {
		args = append(args, x.get(fr, a))
	}
	return fv, args
}

func (x *Exec) invoke(fv Val, args []Val, c *ssa.CallCommon) Val {
	if key, ok := fv.(string); ok {
		return x.Stubs[key](x, args, c)
	}
	f := fv.(*FuncV)
	switch fn := f.Fn.(type) {
	case *ssa.Builtin:
		return x.builtin(fn, args, c)
	case *ssa.Function:
		if st, ok := x.Stubs[fn.String()]; ok {
			return st(x, args, c)
		}
		if len(f.Free) > 0 {
			return x.runClosure(fn, args, f.Free)
		}
		return x.Run(fn, args)
	case nil:
		panic(goPanic{"call of nil function"})
	}
	panic(unsupported{fmt.Sprintf("call of %T", f.Fn)})
}

func (x *Exec) runClosure(fn *ssa.Function, args []Val, free []Val) Val {
	panic(unsupported{"closure call " + fn.String()})
}

func (x *Exec) builtin(b *ssa.Builtin, args []Val, c *ssa.CallCommon) Val {
	switch b.Name() {
	case "len":
		switch v := args[0].(type) {
		case *SliceV:
			return v.Len
		case *StrV:
			if v.K == nil {
				panic(unsupported{"len of opaque string"})
			}
			return BVu(64, uint64(len(*v.K)))
		case *ArrayV:
			return BVu(64, uint64(len(v.E)))
		case *PtrV:
			return BVu(64, uint64(v.N))
		case *MapV:
			return BVu(64, uint64(len(v.M)))
		}
	case "cap":
		if v, ok := args[0].(*SliceV); ok {
			return BVu(64, uint64(v.Cap))
		}
	case "append":
		s := args[0].(*SliceV)
		t, ok := args[1].(*SliceV)
		if !ok {
			panic(unsupported{"append of a string"})
		}
		if t.Len.K == nil {
			panic(unsupported{"append of a slice of symbolic length"})
		}
		if s.Len.K == nil {
			panic(unsupported{"append to a slice of symbolic length"})
		}
		n, k := s.Len.Int(), t.Len.Int()
		if k == 0 {
			return s
		}
		var et types.Type
		if c != nil {
			et = c.Args[0].Type().Underlying().(*types.Slice).Elem()
		}
		if s.B != nil && n+k <= s.Cap {
			for j := 0; j < k; j++ {
				x.cellAt(s.B, s.Off+n+j).V = copyVal(x.cellAt(t.B, t.Off+j).V)
			}
			return &SliceV{B: s.B, Off: s.Off, Len: BVu(64, uint64(n+k)), Cap: s.Cap}
		}
		// reallocate (growth factor as in the Go runtime for small slices: double)
		nc := 2 * s.Cap
		if nc < n+k {
			nc = n + k
		}
		nb := &Backing{ElemT: et}
		for j := 0; j < nc; j++ {
			var v Val
			switch {
			case j < n:
				v = copyVal(x.cellAt(s.B, s.Off+j).V)
			case j < n+k:
				v = copyVal(x.cellAt(t.B, t.Off+j-n).V)
			default:
				v = Zero(et)
			}
			nb.Cells = append(nb.Cells, &Cell{V: v})
		}
		return &SliceV{B: nb, Len: BVu(64, uint64(n+k)), Cap: nc}
	case "copy":
		d := args[0].(*SliceV)
		s, ok := args[1].(*SliceV)
		if !ok {
			panic(unsupported{"copy from a string"})
		}
		// n = min(len(d), len(s)); supported when the minimum is decided by the path condition
		n := d.Len
		if d.Len.SMT() != s.Len.SMT() {
			if x.decide(BinOp(token.LEQ, d.Len, s.Len, true, true)) {
				n = d.Len
			} else {
				n = s.Len
			}
		}
		if n.K != nil {
			for j := 0; j < n.Int(); j++ {
				x.cellAt(d.B, d.Off+j).V = copyVal(x.cellAt(s.B, s.Off+j).V)
			}
			return n
		}
		// symbolic count: copy every materialised source cell (cells beyond the count are never
		// readable through d when len(d) == n; otherwise guard with ite is needed)
		if d.Len.SMT() != n.SMT() {
			panic(unsupported{"copy of a symbolic number of elements into a longer slice"})
		}
		for j := 0; s.B != nil && s.Off+j < len(s.B.Cells); j++ {
			x.cellAt(d.B, d.Off+j).V = copyVal(s.B.Cells[s.Off+j].V)
		}
		return n
	case "min", "max":
		a, bb := asTerm(args[0]), asTerm(args[1])
		_, sg, _ := width(c.Args[0].Type())
		less := x.decide(BinOp(token.LSS, a, bb, sg, sg))
		if (b.Name() == "min") == less {
			return a
		}
		return bb
	case "print", "println":
		return nil
	}
	panic(unsupported{"builtin " + b.Name()})
}

func (x *Exec) eval(fr *frame, v ssa.Value) Val {
	switch i := v.(type) {
	case *ssa.Alloc:
		t := i.Type().Underlying().(*types.Pointer).Elem()
		if at, ok := t.Underlying().(*types.Array); ok {
			b := &Backing{ElemT: at.Elem()}
			for k := int64(0); k < at.Len(); k++ {
				b.Cells = append(b.Cells, &Cell{V: Zero(at.Elem())})
			}
			return &PtrV{Arr: b, N: int(at.Len())}
		}
		return &PtrV{Root: &Cell{V: Zero(t)}}
	case *ssa.UnOp:
		a := x.get(fr, i.X)
		switch i.Op {
		case token.MUL:
			p := a.(*PtrV)
			if p.IsNil() {
				panic(goPanic{"invalid memory address or nil pointer dereference"})
			}
			return x.Load(p)
		case token.NOT:
			return Not(asTerm(a))
		case token.SUB:
			t := asTerm(a)
			return BinOp(token.SUB, BVu(t.W, 0), t, true, true)
		case token.XOR:
			t := asTerm(a)
			if t.K != nil {
				return BV(t.W, new(big.Int).Xor(t.K, mask(t.W)))
			}
			return &Term{W: t.W, S: "(bvnot " + t.S + ")"}
		}
		panic(unsupported{"unary " + i.Op.String()})
	case *ssa.BinOp:
		a, b := x.get(fr, i.X), x.get(fr, i.Y)
		return x.binop(i.Op, a, b, i.X.Type(), i.Y.Type())
	case *ssa.FieldAddr:
		p := x.get(fr, i.X).(*PtrV)
		if p.IsNil() {
			panic(goPanic{"invalid memory address or nil pointer dereference"})
		}
		return &PtrV{Root: p.Root, Path: append(append([]int{}, p.Path...), i.Field)}
	case *ssa.Field:
		return copyVal(x.get(fr, i.X).(*StructV).F[i.Field])
	case *ssa.IndexAddr:
		base := x.get(fr, i.X)
		idx := Resize(asTerm(x.get(fr, i.Index)), 64, isSigned(i.Index.Type()))
		switch s := base.(type) {
		case *SliceV:
			x.inBounds(idx, s.Len, false)
			if idx.K == nil {
				// fork on the position (within the materialised cells; inBounds has put idx < len in the path)
				n := 0
				if s.B != nil {
					n = len(s.B.Cells) - s.Off
				}
				if n > 16 {
					panic(unsupported{"symbolic slice index over more than 16 materialised cells"})
				}
				found := false
				for k := 0; k < n; k++ {
					if x.decide(BinOp(token.EQL, idx, BVu(64, uint64(k)), false, false)) {
						idx = BVu(64, uint64(k))
						found = true
						break
					}
				}
				if !found {
					panic(unsupported{"symbolic slice index beyond the materialised cells"})
				}
			}
			if s.B == nil {
				panic(goPanic{"index out of range (nil slice)"})
			}
			return &PtrV{Root: x.cellAt(s.B, s.Off+idx.Int())}
		case *PtrV:
			if s.IsNil() {
				panic(goPanic{"invalid memory address or nil pointer dereference"})
			}
			if s.Arr != nil {
				x.inBounds(idx, BVu(64, uint64(s.N)), false)
				if idx.K == nil {
					panic(unsupported{"symbolic array index"})
				}
				return &PtrV{Root: s.Arr.Cells[s.Off+idx.Int()]}
			}
			arr, ok := (*x.slot(s)).(*ArrayV)
			if !ok {
				panic(unsupported{"IndexAddr through pointer to non-array"})
			}
			x.inBounds(idx, BVu(64, uint64(len(arr.E))), false)
			if idx.K == nil {
				panic(unsupported{"symbolic array index"})
			}
			return &PtrV{Root: s.Root, Path: append(append([]int{}, s.Path...), idx.Int())}
		}
		panic(unsupported{fmt.Sprintf("IndexAddr on %T", base)})
	case *ssa.Index:
		base := x.get(fr, i.X)
		idx := Resize(asTerm(x.get(fr, i.Index)), 64, isSigned(i.Index.Type()))
		switch a := base.(type) {
		case *ArrayV:
			x.inBounds(idx, BVu(64, uint64(len(a.E))), false)
			if idx.K == nil {
				panic(unsupported{"symbolic array index"})
			}
			return copyVal(a.E[idx.Int()])
		case *StrV:
			panic(unsupported{"string indexing"})
		}
		panic(unsupported{fmt.Sprintf("Index on %T", base)})
	case *ssa.Slice:
		return x.slice(fr, i)
	case *ssa.MakeSlice:
		n := Resize(asTerm(x.get(fr, i.Len)), 64, isSigned(i.Len.Type()))
		c := Resize(asTerm(x.get(fr, i.Cap)), 64, isSigned(i.Cap.Type()))
		et := i.Type().Underlying().(*types.Slice).Elem()
		if !x.decide(BinOp(token.GEQ, n, BVu(64, 0), true, true)) {
			panic(goPanic{"makeslice: len out of range"})
		}
		b := &Backing{ElemT: et}
		if c.K != nil {
			for k := 0; k < c.Int(); k++ {
				b.Cells = append(b.Cells, &Cell{V: Zero(et)})
			}
			return &SliceV{B: b, Len: n, Cap: c.Int()}
		}
		b.Grow = true
		return &SliceV{B: b, Len: n, Cap: 1 << 30}
	case *ssa.MakeMap:
		return &MapV{M: map[string]Val{}}
	case *ssa.Lookup:
		m, ok := x.get(fr, i.X).(*MapV)
		if !ok {
			panic(unsupported{"string indexing"})
		}
		k := x.get(fr, i.Index)
		var val Val
		found := false
		if m.M != nil {
			val, found = m.M[keyString(k)]
		}
		if !found {
			val = Zero(i.X.Type().Underlying().(*types.Map).Elem())
		}
		if i.CommaOk {
			return &TupleV{E: []Val{copyVal(val), Bool(found)}}
		}
		return copyVal(val)
	case *ssa.Call:
		fv, args := x.prepCall(fr, &i.Call)
		return x.invoke(fv, args, &i.Call)
	case *ssa.Extract:
		return x.get(fr, i.Tuple).(*TupleV).E[i.Index]
	case *ssa.Convert:
		return x.convert(x.get(fr, i.X), i.X.Type(), i.Type())
	case *ssa.ChangeType:
		return x.get(fr, i.X)
	case *ssa.ChangeInterface:
		return x.get(fr, i.X)
	case *ssa.MakeInterface:
		return &IfaceV{T: i.X.Type(), V: x.get(fr, i.X)}
	case *ssa.MakeClosure:
		f := &FuncV{Fn: i.Fn.(*ssa.Function)}
		for _, b := range i.Bindings {
			f.Free = append(f.Free, x.get(fr, b))
		}
		return f
	case *ssa.TypeAssert:
		iv := x.get(fr, i.X).(*IfaceV)
		ok := false
		if iv.T != nil {
			if types.IsInterface(i.AssertedType) {
				ok = types.Implements(iv.T, i.AssertedType.Underlying().(*types.Interface))
			} else {
				ok = types.Identical(iv.T, i.AssertedType)
			}
		}
		var res Val
		if ok {
			if types.IsInterface(i.AssertedType) {
				res = iv
			} else {
				res = iv.V
			}
		} else {
			if !i.CommaOk {
				panic(goPanic{"interface conversion: type assertion failed"})
			}
			res = Zero(i.AssertedType)
		}
		if i.CommaOk {
			return &TupleV{E: []Val{res, Bool(ok)}}
		}
		return res
	case *ssa.SliceToArrayPointer:
		panic(unsupported{"slice to array pointer"})
	}
	panic(unsupported{fmt.Sprintf("value instruction %T", v)})
}

func isSigned(t types.Type) bool {
	_, s, _ := width(t)
	return s
}

func (x *Exec) binop(op token.Token, a, b Val, ta, tb types.Type) Val {
	switch av := a.(type) {
	case *Term:
		bt := asTerm(b)
		_, sa, _ := width(ta)
		_, sb, _ := width(tb)
		if (op == token.QUO || op == token.REM) && bt.K == nil {
			if x.decide(BinOp(token.EQL, bt, BVu(bt.W, 0), false, false)) {
				panic(goPanic{"integer divide by zero"})
			}
		}
		return BinOp(op, av, bt, sa, sb)
	case *StrV:
		bs := b.(*StrV)
		switch op {
		case token.ADD:
			if av.K != nil && bs.K != nil {
				return Str(*av.K + *bs.K)
			}
		case token.EQL, token.NEQ:
			if av.K != nil && bs.K != nil {
				return Bool((*av.K == *bs.K) == (op == token.EQL))
			}
			if av.K == nil && bs.K == nil && av.S == bs.S {
				return Bool(op == token.EQL)
			}
		}
		panic(unsupported{"operator " + op.String() + " on opaque strings"})
	case *PtrV:
		bp := b.(*PtrV)
		same := av.Root == bp.Root && av.Arr == bp.Arr && fmt.Sprint(av.Path) == fmt.Sprint(bp.Path) && av.Off == bp.Off
		if op == token.EQL {
			return Bool(same)
		}
		if op == token.NEQ {
			return Bool(!same)
		}
	case *IfaceV:
		bi := b.(*IfaceV)
		if av.T == nil || bi.T == nil {
			eq := av.T == nil && bi.T == nil
			if op == token.EQL {
				return Bool(eq)
			}
			if op == token.NEQ {
				return Bool(!eq)
			}
		}
		panic(unsupported{"comparison of non-nil interfaces"})
	case *SliceV:
		// comparison with nil only
		bs := b.(*SliceV)
		var other *SliceV
		if bs.B == nil && bs.Len.K != nil && bs.Len.Int() == 0 {
			other = av
		} else {
			other = bs
		}
		isNil := other.B == nil
		if op == token.EQL {
			return Bool(isNil)
		}
		if op == token.NEQ {
			return Bool(!isNil)
		}
	case *MapV:
		bm := b.(*MapV)
		isNil := av.M == nil && bm.M == nil
		if op == token.EQL {
			return Bool(isNil)
		}
		return Bool(!isNil)
	case *Opaque:
		if bp, ok := b.(*PtrV); ok && bp.IsNil() {
			if op == token.EQL {
				return Bool(false)
			}
			if op == token.NEQ {
				return Bool(true)
			}
		}
	}
	panic(unsupported{fmt.Sprintf("operator %s on %T", op, a)})
}

func (x *Exec) convert(v Val, from, to types.Type) Val {
	wf, sf, okf := width(from)
	wt, _, okt := width(to)
	if okf && okt && wf > 0 && wt > 0 {
		return Resize(asTerm(v), wt, sf)
	}
	if _, ok := v.(*StrV); ok {
		if b, ok := to.Underlying().(*types.Basic); ok && b.Info()&types.IsString != 0 {
			return v
		}
	}
	if _, ok := to.Underlying().(*types.Pointer); ok {
		return v
	}
	panic(unsupported{"conversion " + from.String() + " -> " + to.String()})
}

func (x *Exec) slice(fr *frame, i *ssa.Slice) Val {
	base := x.get(fr, i.X)
	bound := func(v ssa.Value) *Term {
		if v == nil {
			return nil
		}
		return Resize(asTerm(x.get(fr, v)), 64, isSigned(v.Type()))
	}
	lo, hi := bound(i.Low), bound(i.High)
	if i.Max != nil {
		panic(unsupported{"three-index slice"})
	}
	var b *Backing
	var off, cp int
	var n *Term
	switch s := base.(type) {
	case *SliceV:
		b, off, n, cp = s.B, s.Off, s.Len, s.Cap
	case *PtrV:
		if s.Arr == nil {
			if s.IsNil() {
				panic(goPanic{"slice of nil array pointer"})
			}
			panic(unsupported{"slicing an array embedded in another object"})
		}
		b, off, n, cp = s.Arr, s.Off, BVu(64, uint64(s.N)), s.N
	case *StrV:
		panic(unsupported{"string slicing"})
	default:
		panic(unsupported{fmt.Sprintf("slice of %T", base)})
	}
	if lo == nil {
		lo = BVu(64, 0)
	}
	if lo.K == nil {
		panic(unsupported{"symbolic lower slice bound"})
	}
	if hi == nil {
		hi = n
	} else {
		// hi <= cap (concrete) and lo <= hi
		if hi.K != nil {
			if hi.Int() > cp || hi.Int() < 0 {
				panic(goPanic{"slice bounds out of range"})
			}
		} else {
			x.inBounds(hi, BVu(64, uint64(cp)), true)
		}
	}
	x.inBounds(lo, hi, true)
	nl := BinOp(token.SUB, hi, lo, true, true)
	return &SliceV{B: b, Off: off + lo.Int(), Len: nl, Cap: cp - lo.Int()}
}
