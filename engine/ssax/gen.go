package ssax

import (
	"fmt"
	"go/types"
)

// Gen builds symbolic input values from Go types. Every scalar becomes a declared SMT constant named
// after its access path; every slice gets a symbolic length in [0, Bound(path)] and Bound(path)
// materialised elements.
type Gen struct {
	X *Exec
	// Bound gives, for the slice at path, the number of materialised elements and the largest length.
	Bound func(path string, t types.Type) (mat int, max uint64)
	// Min, when set, gives the smallest length of the slice at path.
	Min func(path string, t types.Type) uint64
	// Leaf, when it returns a non-nil value, overrides the generation at path.
	Leaf func(path string, t types.Type) Val
	// Index records every generated value by path.
	Index map[string]Val
}

var opaqueType = types.NewNamed(types.NewTypeName(0, nil, "symbolic", nil), types.NewStruct(nil, nil), nil)

func (g *Gen) Make(t types.Type, path string) Val {
	v := g.make(t, path)
	if g.Index != nil {
		g.Index[path] = v
	}
	return v
}

func (g *Gen) make(t types.Type, path string) Val {
	if g.Leaf != nil {
		if v := g.Leaf(path, t); v != nil {
			return v
		}
	}
	switch u := t.Underlying().(type) {
	case *types.Basic:
		if u.Info()&types.IsString != 0 {
			return &StrV{S: path}
		}
		if w, _, ok := width(t); ok {
			return g.X.Declare(path, w)
		}
	case *types.Struct:
		s := &StructV{F: make([]Val, u.NumFields())}
		for i := range s.F {
			s.F[i] = g.Make(u.Field(i).Type(), path+"."+u.Field(i).Name())
		}
		return s
	case *types.Array:
		a := &ArrayV{E: make([]Val, u.Len())}
		for i := range a.E {
			a.E[i] = g.Make(u.Elem(), fmt.Sprintf("%s!%d", path, i))
		}
		return a
	case *types.Slice:
		b, mx := g.Bound(path, t)
		n := g.X.Declare(path+".len", 64)
		g.X.Assume = append(g.X.Assume, fmt.Sprintf("(bvule %s (_ bv%d 64))", n.S, mx))
		if g.Min != nil {
			if mn := g.Min(path, t); mn > 0 {
				g.X.Assume = append(g.X.Assume, fmt.Sprintf("(bvuge %s (_ bv%d 64))", n.S, mn))
			}
		}
		bk := &Backing{ElemT: u.Elem()}
		for i := 0; i < b; i++ {
			bk.Cells = append(bk.Cells, &Cell{V: g.Make(u.Elem(), fmt.Sprintf("%s!%d", path, i))})
		}
		return &SliceV{B: bk, Len: n, Cap: b}
	case *types.Pointer:
		return &PtrV{Root: &Cell{V: g.Make(u.Elem(), path)}}
	case *types.Interface:
		return &IfaceV{T: opaqueType, V: &Opaque{Tag: path}}
	}
	panic(unsupported{"cannot generate a symbolic " + t.String() + " at " + path})
}
