// Package ssax is a small symbolic executor for Go SSA (golang.org/x/tools/go/ssa): the functions of
// the repository are loaded from source on every run, executed instruction by instruction on values
// whose scalars are SMT bit-vector / Boolean terms, and every branch on a symbolic condition is
// decided by the solver (both sides explored when both are feasible). Loops are unrolled by
// exploration; the bound comes from the assumptions on the lengths of the symbolic inputs.
//
// Integers have Go's wrap-around semantics (bit-vectors of the type's width). Strings and foreign
// objects are opaque. Memory is a set of cells; slices share backing stores as in Go.
package ssax

import (
	"fmt"
	"go/token"
	"go/types"
	"math/big"
	"strings"
)

type Val interface{}

// Term is a scalar: W == 0 is a Boolean, otherwise a bit-vector of width W.
type Term struct {
	W int
	K *big.Int // concrete value (unsigned representative; 0/1 for Booleans), nil when symbolic
	S string   // SMT text when symbolic
}

func BV(w int, v *big.Int) *Term {
	m := new(big.Int).Lsh(big.NewInt(1), uint(w))
	k := new(big.Int).Mod(v, m)
	return &Term{W: w, K: k}
}
func BVu(w int, v uint64) *Term { return BV(w, new(big.Int).SetUint64(v)) }
func Bool(b bool) *Term {
	if b {
		return &Term{K: big.NewInt(1)}
	}
	return &Term{K: big.NewInt(0)}
}
func Sym(w int, s string) *Term { return &Term{W: w, S: s} }

func (t *Term) Conc() bool { return t.K != nil }
func (t *Term) IsTrue() bool {
	return t.K != nil && t.K.Sign() != 0
}
func (t *Term) SMT() string {
	if t.K != nil {
		if t.W == 0 {
			if t.K.Sign() != 0 {
				return "true"
			}
			return "false"
		}
		return fmt.Sprintf("(_ bv%s %d)", t.K.String(), t.W)
	}
	return t.S
}
func (t *Term) Int() int { return int(t.K.Int64()) }
func (t *Term) signed() *big.Int {
	if t.K.Bit(t.W-1) == 1 {
		return new(big.Int).Sub(t.K, new(big.Int).Lsh(big.NewInt(1), uint(t.W)))
	}
	return t.K
}
func (t *Term) String() string { return t.SMT() }

func Not(t *Term) *Term {
	if t.K != nil {
		return Bool(t.K.Sign() == 0)
	}
	if strings.HasPrefix(t.S, "(not ") {
		return &Term{S: t.S[5 : len(t.S)-1]}
	}
	return &Term{S: "(not " + t.S + ")"}
}
func And(a, b *Term) *Term {
	if a.K != nil {
		if a.IsTrue() {
			return b
		}
		return a
	}
	if b.K != nil {
		if b.IsTrue() {
			return a
		}
		return b
	}
	return &Term{S: "(and " + a.S + " " + b.S + ")"}
}

type StructV struct{ F []Val }
type ArrayV struct{ E []Val }
type TupleV struct{ E []Val }

type Cell struct{ V Val }

// Backing is the storage of a slice or of an addressable array.
type Backing struct {
	Cells []*Cell
	ElemT types.Type
	Grow  bool // storage of make([]T, n) with symbolic n: cells materialise on demand
}

type SliceV struct {
	B   *Backing // nil for the nil slice
	Off int
	Len *Term // width 64
	Cap int   // concrete capacity (from Off)
}

// PtrV points to a cell (possibly into it along Path) or to a whole backing store (pointer to array).
type PtrV struct {
	Root *Cell
	Path []int
	Arr  *Backing
	Off  int
	N    int
}

func (p *PtrV) IsNil() bool { return p.Root == nil && p.Arr == nil }

type IfaceV struct {
	T types.Type // dynamic type; nil for the nil interface
	V Val
}

type StrV struct {
	K *string // concrete
	S string  // name when opaque
}

func Str(s string) *StrV { return &StrV{K: &s} }

// Opaque is a value produced by a stub (a foreign object); Tag and Args describe how it was made.
type Opaque struct {
	Tag  string
	Args []Val
	T    types.Type
}

type FuncV struct {
	Fn   interface{} // *ssa.Function
	Free []Val
}

func copyVal(v Val) Val {
	switch x := v.(type) {
	case *StructV:
		n := &StructV{F: make([]Val, len(x.F))}
		for i := range x.F {
			n.F[i] = copyVal(x.F[i])
		}
		return n
	case *ArrayV:
		n := &ArrayV{E: make([]Val, len(x.E))}
		for i := range x.E {
			n.E[i] = copyVal(x.E[i])
		}
		return n
	}
	return v
}

func width(t types.Type) (w int, signed bool, ok bool) {
	b, isB := t.Underlying().(*types.Basic)
	if !isB {
		return 0, false, false
	}
	switch b.Kind() {
	case types.Bool, types.UntypedBool:
		return 0, false, true
	case types.Int, types.Int64, types.UntypedInt, types.UntypedRune:
		return 64, true, true
	case types.Uint, types.Uint64, types.Uintptr:
		return 64, false, true
	case types.Int32:
		return 32, true, true
	case types.Uint32:
		return 32, false, true
	case types.Int16:
		return 16, true, true
	case types.Uint16:
		return 16, false, true
	case types.Int8:
		return 8, true, true
	case types.Uint8:
		return 8, false, true
	}
	return 0, false, false
}

// Zero returns the zero value of t.
func Zero(t types.Type) Val {
	switch u := t.Underlying().(type) {
	case *types.Basic:
		if u.Info()&types.IsString != 0 {
			return Str("")
		}
		if w, _, ok := width(t); ok {
			if w == 0 {
				return Bool(false)
			}
			return BVu(w, 0)
		}
		if u.Kind() == types.UnsafePointer || u.Kind() == types.UntypedNil {
			return &PtrV{}
		}
		panic(unsupported{"zero value of " + t.String()})
	case *types.Struct:
		s := &StructV{F: make([]Val, u.NumFields())}
		for i := range s.F {
			s.F[i] = Zero(u.Field(i).Type())
		}
		return s
	case *types.Array:
		a := &ArrayV{E: make([]Val, u.Len())}
		for i := range a.E {
			a.E[i] = Zero(u.Elem())
		}
		return a
	case *types.Slice:
		return &SliceV{Len: BVu(64, 0)}
	case *types.Pointer:
		return &PtrV{}
	case *types.Interface:
		return &IfaceV{}
	case *types.Signature:
		return &FuncV{}
	case *types.Map:
		return &MapV{}
	case *types.Chan:
		return &PtrV{}
	}
	panic(unsupported{"zero value of " + t.String()})
}

// MapV is a map with concrete keys (nil map: M == nil).
type MapV struct {
	M    map[string]Val
	Keys []Val
}

type unsupported struct{ msg string }

func bvBin(op string, a, b *Term) *Term {
	return &Term{W: a.W, S: "(" + op + " " + a.SMT() + " " + b.SMT() + ")"}
}
func bvCmp(op string, a, b *Term) *Term {
	return &Term{S: "(" + op + " " + a.SMT() + " " + b.SMT() + ")"}
}

func mask(w int) *big.Int {
	return new(big.Int).Sub(new(big.Int).Lsh(big.NewInt(1), uint(w)), big.NewInt(1))
}

// BinOp evaluates a Go binary operator on two scalars of the same width (shifts: any widths).
func BinOp(op token.Token, a, b *Term, signed bool, bSigned bool) *Term {
	if a.W == 0 {
		switch op {
		case token.EQL:
			if a.K != nil && b.K != nil {
				return Bool(a.IsTrue() == b.IsTrue())
			}
			return &Term{S: "(= " + a.SMT() + " " + b.SMT() + ")"}
		case token.NEQ:
			return Not(BinOp(token.EQL, a, b, false, false))
		case token.AND, token.LAND:
			return And(a, b)
		case token.OR, token.LOR:
			return Not(And(Not(a), Not(b)))
		}
		panic(unsupported{"boolean operator " + op.String()})
	}
	if op == token.SHL || op == token.SHR {
		return shift(op, a, b, signed)
	}
	if a.W != b.W {
		panic(unsupported{fmt.Sprintf("operands of different width %d %d for %s", a.W, b.W, op)})
	}
	if a.K != nil && b.K != nil {
		x, y := a.K, b.K
		if signed {
			x, y = a.signed(), b.signed()
		}
		r := new(big.Int)
		switch op {
		case token.ADD:
			return BV(a.W, r.Add(x, y))
		case token.SUB:
			return BV(a.W, r.Sub(x, y))
		case token.MUL:
			return BV(a.W, r.Mul(x, y))
		case token.QUO:
			if y.Sign() == 0 {
				panic(goPanic{"integer divide by zero"})
			}
			return BV(a.W, r.Quo(x, y))
		case token.REM:
			if y.Sign() == 0 {
				panic(goPanic{"integer divide by zero"})
			}
			return BV(a.W, r.Rem(x, y))
		case token.AND:
			return BV(a.W, r.And(a.K, b.K))
		case token.OR:
			return BV(a.W, r.Or(a.K, b.K))
		case token.XOR:
			return BV(a.W, r.Xor(a.K, b.K))
		case token.AND_NOT:
			return BV(a.W, r.AndNot(a.K, b.K))
		case token.EQL:
			return Bool(x.Cmp(y) == 0)
		case token.NEQ:
			return Bool(x.Cmp(y) != 0)
		case token.LSS:
			return Bool(x.Cmp(y) < 0)
		case token.LEQ:
			return Bool(x.Cmp(y) <= 0)
		case token.GTR:
			return Bool(x.Cmp(y) > 0)
		case token.GEQ:
			return Bool(x.Cmp(y) >= 0)
		}
		panic(unsupported{"operator " + op.String()})
	}
	s := func(u, sg string) string {
		if signed {
			return sg
		}
		return u
	}
	switch op {
	case token.ADD:
		if b.K != nil && b.K.Sign() == 0 {
			return a
		}
		if a.K != nil && a.K.Sign() == 0 {
			return b
		}
		return bvBin("bvadd", a, b)
	case token.SUB:
		if b.K != nil && b.K.Sign() == 0 {
			return a
		}
		return bvBin("bvsub", a, b)
	case token.MUL:
		return bvBin("bvmul", a, b)
	case token.QUO:
		return bvBin(s("bvudiv", "bvsdiv"), a, b)
	case token.REM:
		return bvBin(s("bvurem", "bvsrem"), a, b)
	case token.AND:
		return bvBin("bvand", a, b)
	case token.OR:
		return bvBin("bvor", a, b)
	case token.XOR:
		return bvBin("bvxor", a, b)
	case token.AND_NOT:
		return bvBin("bvand", a, &Term{W: b.W, S: "(bvnot " + b.SMT() + ")"})
	case token.EQL:
		if a.SMT() == b.SMT() {
			return Bool(true)
		}
		return bvCmp("=", a, b)
	case token.NEQ:
		return Not(BinOp(token.EQL, a, b, signed, bSigned))
	case token.LSS:
		return bvCmp(s("bvult", "bvslt"), a, b)
	case token.LEQ:
		return bvCmp(s("bvule", "bvsle"), a, b)
	case token.GTR:
		return bvCmp(s("bvugt", "bvsgt"), a, b)
	case token.GEQ:
		return bvCmp(s("bvuge", "bvsge"), a, b)
	}
	panic(unsupported{"operator " + op.String()})
}

// Resize converts a scalar to width w (source signedness decides the extension).
func Resize(a *Term, w int, srcSigned bool) *Term {
	if a.W == w {
		return a
	}
	if a.K != nil {
		if srcSigned {
			return BV(w, a.signed())
		}
		return BV(w, a.K)
	}
	if w < a.W {
		return &Term{W: w, S: fmt.Sprintf("((_ extract %d 0) %s)", w-1, a.S)}
	}
	ext := "zero_extend"
	if srcSigned {
		ext = "sign_extend"
	}
	return &Term{W: w, S: fmt.Sprintf("((_ %s %d) %s)", ext, w-a.W, a.S)}
}

func shift(op token.Token, a, b *Term, signed bool) *Term {
	// Go: a shift count >= width gives 0 (or the sign fill); counts are unsigned here (a negative
	// signed count panics in Go: not modelled, counts in the code under analysis are unsigned or constant)
	if a.K != nil && b.K != nil {
		if !b.K.IsUint64() || b.K.Uint64() >= uint64(a.W) {
			if op == token.SHR && signed && a.K.Bit(a.W-1) == 1 {
				return BV(a.W, big.NewInt(-1))
			}
			return BVu(a.W, 0)
		}
		n := uint(b.K.Uint64())
		if op == token.SHL {
			return BV(a.W, new(big.Int).Lsh(a.K, n))
		}
		if signed {
			return BV(a.W, new(big.Int).Rsh(a.signed(), n))
		}
		return BV(a.W, new(big.Int).Rsh(a.K, n))
	}
	cnt := b
	var guard string
	if b.W > a.W {
		guard = fmt.Sprintf("(bvuge %s (_ bv%d %d))", b.SMT(), a.W, b.W)
		cnt = Resize(b, a.W, false)
	} else {
		cnt = Resize(b, a.W, false)
	}
	o := "bvshl"
	if op == token.SHR {
		o = "bvlshr"
		if signed {
			o = "bvashr"
		}
	}
	core := "(" + o + " " + a.SMT() + " " + cnt.SMT() + ")"
	if guard != "" {
		over := fmt.Sprintf("(_ bv0 %d)", a.W)
		if op == token.SHR && signed {
			over = "(" + o + " " + a.SMT() + fmt.Sprintf(" (_ bv%d %d))", a.W-1, a.W)
		}
		core = "(ite " + guard + " " + over + " " + core + ")"
	}
	return &Term{W: a.W, S: core}
}

type goPanic struct{ msg string }
