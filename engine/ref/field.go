// Package ref contains the reference models (written from the plonky2 specification, independent of
// the repository's code) over a small expression DAG with GF(p) semantics, p = 2^64 - 2^32 + 1.
// The same reference code is run symbolically (to obtain reference terms) and natively (Eval) to
// validate itself on known-answer vectors and real proofs.
package ref

import (
	"crypto/sha256"
	"encoding/binary"
	"fmt"
	"math/big"
	"strings"
)

var (
	P, _ = new(big.Int).SetString("18446744069414584321", 10)
	R, _ = new(big.Int).SetString("21888242871839275222246405745257275088548364400416034343698204186575808495617", 10)
	one  = big.NewInt(1)
)

type Op uint8

const (
	OConst Op = iota
	OVar
	OAdd
	OSub
	OMul
	OInv    // multiplicative inverse in GF(p) (0 -> 0)
	OIte    // A==1 ? B : C   (A is 0/1)
	OIsZero // 1 if A == 0 else 0
	OUF     // uninterpreted function Name_Idx(Args...)
)

// N is a node; its value is an element of GF(p) (for OUF with Mod = R an element of F_r).
type N struct {
	ID      int
	Op      Op
	A, B, C *N
	K       *big.Int
	V       any // OVar: caller's handle (e.g. *sym.Term)
	Name    string
	Idx     int
	Args    []*N
	BigMod  bool // value lives in F_r (BN254) rather than GF(p)
}

// B builds hash-consed nodes.
type B struct {
	next  int
	table map[string]*N
	vars  map[any]*N
	All   []*N
}

func NewB() *B { return &B{table: map[string]*N{}, vars: map[any]*N{}} }

func (b *B) mk(n *N, key string) *N {
	if o, ok := b.table[key]; ok {
		return o
	}
	b.next++
	n.ID = b.next
	b.table[key] = n
	b.All = append(b.All, n)
	return n
}

func (b *B) Const(c *big.Int) *N {
	k := new(big.Int).Mod(c, P)
	return b.mk(&N{Op: OConst, K: k}, "c"+k.String())
}
func (b *B) ConstU(c uint64) *N { return b.Const(new(big.Int).SetUint64(c)) }
func (b *B) Zero() *N           { return b.ConstU(0) }
func (b *B) One() *N            { return b.ConstU(1) }

// ConstR is a constant of F_r (BN254 scalar field).
func (b *B) ConstR(c *big.Int) *N {
	k := new(big.Int).Mod(c, R)
	return b.mk(&N{Op: OConst, K: k, BigMod: true}, "C"+k.String())
}

func (b *B) Var(h any, name string) *N {
	if n, ok := b.vars[h]; ok {
		return n
	}
	b.next++
	n := &N{ID: b.next, Op: OVar, V: h, Name: name}
	b.vars[h] = n
	b.All = append(b.All, n)
	return n
}

// VarOf reports whether h has been bound to a variable.
func (b *B) VarOf(h any) (*N, bool) { n, ok := b.vars[h]; return n, ok }

// VarR is a variable ranging over F_r.
func (b *B) VarR(h any, name string) *N {
	n := b.Var(h, name)
	n.BigMod = true
	return n
}

func (b *B) mod(x, y *N) *big.Int {
	if x.BigMod || (y != nil && y.BigMod) {
		return R
	}
	return P
}

func (b *B) bin(op Op, x, y *N) *N {
	m := b.mod(x, y)
	big_ := m == R
	if x.Op == OConst && y.Op == OConst {
		v := new(big.Int)
		switch op {
		case OAdd:
			v.Add(x.K, y.K)
		case OSub:
			v.Sub(x.K, y.K)
		case OMul:
			v.Mul(x.K, y.K)
		}
		if big_ {
			return b.ConstR(v)
		}
		return b.Const(v)
	}
	switch op {
	case OAdd:
		if x.Op == OConst && x.K.Sign() == 0 {
			return y
		}
		if y.Op == OConst && y.K.Sign() == 0 {
			return x
		}
	case OSub:
		if y.Op == OConst && y.K.Sign() == 0 {
			return x
		}
	case OMul:
		if x.Op == OConst && x.K.Sign() == 0 {
			return x
		}
		if y.Op == OConst && y.K.Sign() == 0 {
			return y
		}
		if x.Op == OConst && x.K.Cmp(one) == 0 {
			return y
		}
		if y.Op == OConst && y.K.Cmp(one) == 0 {
			return x
		}
	}
	return b.mk(&N{Op: op, A: x, B: y, BigMod: big_}, fmt.Sprintf("%d:%d:%d", op, x.ID, y.ID))
}

func (b *B) Add(x, y *N) *N { return b.bin(OAdd, x, y) }
func (b *B) Sub(x, y *N) *N { return b.bin(OSub, x, y) }
func (b *B) Mul(x, y *N) *N { return b.bin(OMul, x, y) }
func (b *B) Neg(x *N) *N    { return b.bin(OSub, b.Zero(), x) }
func (b *B) Sq(x *N) *N     { return b.Mul(x, x) }

func (b *B) Inv(x *N) *N {
	if x.Op == OConst {
		if x.K.Sign() == 0 {
			return x
		}
		return b.Const(new(big.Int).ModInverse(x.K, P))
	}
	return b.mk(&N{Op: OInv, A: x}, fmt.Sprintf("inv:%d", x.ID))
}

func (b *B) IsZero(x *N) *N {
	if x.Op == OConst {
		if x.K.Sign() == 0 {
			return b.One()
		}
		return b.Zero()
	}
	return b.mk(&N{Op: OIsZero, A: x}, fmt.Sprintf("isz:%d", x.ID))
}

// Ite returns x if c == 1 else y (c must be 0/1 valued).
func (b *B) Ite(c, x, y *N) *N {
	if c.Op == OConst {
		if c.K.Cmp(one) == 0 {
			return x
		}
		return y
	}
	if x == y {
		return x
	}
	return b.mk(&N{Op: OIte, A: c, B: x, C: y, BigMod: x.BigMod || y.BigMod}, fmt.Sprintf("ite:%d:%d:%d", c.ID, x.ID, y.ID))
}

// UF applies an uninterpreted function; bigMod says whether the result ranges over F_r.
func (b *B) UF(name string, idx int, bigMod bool, args ...*N) *N {
	ids := make([]string, len(args))
	for i, a := range args {
		ids[i] = fmt.Sprint(a.ID)
	}
	return b.mk(&N{Op: OUF, Name: name, Idx: idx, Args: args, BigMod: bigMod}, fmt.Sprintf("uf:%s:%d:%s", name, idx, strings.Join(ids, ",")))
}

// Pow raises x to a constant exponent (square and multiply, MSB first).
func (b *B) Pow(x *N, e uint64) *N {
	r := b.One()
	for i := 63; i >= 0; i-- {
		r = b.Mul(r, r)
		if e>>uint(i)&1 == 1 {
			r = b.Mul(r, x)
		}
	}
	return r
}

// ConcreteUF, when it has an entry for a function name, replaces the pseudo-random interpretation
// in Eval by the real function (used by replays, where the reference must compute real hashes).
var ConcreteUF = map[string]func(idx int, args []*big.Int) *big.Int{}

// UFEval is the common pseudo-random interpretation of uninterpreted functions used when both
// the implementation and the reference DAG are evaluated at sample points.
func UFEval(name string, idx int, bigMod bool, args []*big.Int) *big.Int {
	h := sha256.New()
	h.Write([]byte(name))
	var buf [8]byte
	binary.LittleEndian.PutUint64(buf[:], uint64(idx))
	h.Write(buf[:])
	for _, a := range args {
		bs := a.Bytes()
		binary.LittleEndian.PutUint64(buf[:], uint64(len(bs)))
		h.Write(buf[:])
		h.Write(bs)
	}
	d := h.Sum(nil)
	d2 := sha256.Sum256(d)
	v := new(big.Int).SetBytes(append(d, d2[:]...))
	if bigMod {
		return v.Mod(v, R)
	}
	return v.Mod(v, P)
}

// Eval evaluates n natively; env gives the values of variables.
func Eval(n *N, env func(v any) *big.Int, memo map[*N]*big.Int) *big.Int {
	if v, ok := memo[n]; ok {
		return v
	}
	// iterative post-order
	type fr struct {
		n *N
		i int
	}
	st := []fr{{n, 0}}
	kids := func(x *N) []*N {
		switch x.Op {
		case OAdd, OSub, OMul:
			return []*N{x.A, x.B}
		case OInv, OIsZero:
			return []*N{x.A}
		case OIte:
			return []*N{x.A, x.B, x.C}
		case OUF:
			return x.Args
		}
		return nil
	}
	for len(st) > 0 {
		f := &st[len(st)-1]
		if _, ok := memo[f.n]; ok {
			st = st[:len(st)-1]
			continue
		}
		ks := kids(f.n)
		if f.i < len(ks) {
			k := ks[f.i]
			f.i++
			if _, ok := memo[k]; !ok {
				st = append(st, fr{k, 0})
			}
			continue
		}
		x := f.n
		m := P
		if x.BigMod {
			m = R
		}
		var v *big.Int
		switch x.Op {
		case OConst:
			v = x.K
		case OVar:
			v = new(big.Int).Mod(env(x.V), m)
		case OAdd:
			v = new(big.Int).Add(memo[x.A], memo[x.B])
			v.Mod(v, m)
		case OSub:
			v = new(big.Int).Sub(memo[x.A], memo[x.B])
			v.Mod(v, m)
		case OMul:
			v = new(big.Int).Mul(memo[x.A], memo[x.B])
			v.Mod(v, m)
		case OInv:
			if memo[x.A].Sign() == 0 {
				v = new(big.Int)
			} else {
				v = new(big.Int).ModInverse(memo[x.A], P)
			}
		case OIsZero:
			if memo[x.A].Sign() == 0 {
				v = big.NewInt(1)
			} else {
				v = big.NewInt(0)
			}
		case OIte:
			if memo[x.A].Cmp(one) == 0 {
				v = memo[x.B]
			} else {
				v = memo[x.C]
			}
		case OUF:
			as := make([]*big.Int, len(x.Args))
			for i, a := range x.Args {
				as[i] = memo[a]
			}
			if cf, ok := ConcreteUF[x.Name]; ok {
				v = cf(x.Idx, as)
			} else {
				v = UFEval(x.Name, x.Idx, x.BigMod, as)
			}
		}
		memo[x] = v
		st = st[:len(st)-1]
	}
	return memo[n]
}
