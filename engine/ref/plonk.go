package ref

import "math/big"

// PLONK vanishing-polynomial check of plonky2 (plonk/vanishing_poly.rs, plonk/verifier.rs).

type PlonkShape struct {
	DegreeBits           uint
	NumChallenges        int
	NumRoutedWires       int
	NumPartialProducts   int
	QuotientDegreeFactor int
	KIs                  []*big.Int
}

type PlonkOpenings struct {
	Wires, Sigmas, Zs, ZsNext, PartialProducts, Quotients []E
}

// EvalL0 = (x^n - 1) / (n (x - 1)).
func (b *B) EvalL0(n uint64, x, xPowN E) E {
	num := b.ESub(xPowN, b.EOne())
	den := b.ESub(b.EScalar(x, b.ConstU(n)), b.EConstU(n))
	return b.EDiv(num, den)
}

// VanishingConditions returns, per challenge round, the pair (vanishing(zeta), Z_H(zeta)*t(zeta))
// that plonky2's verifier requires to be equal. gateConstraints are the filtered, summed gate
// constraint values (evaluate_gate_constraints).
func (b *B) VanishingConditions(sh *PlonkShape, op *PlonkOpenings, betas, gammas, alphas []*N, zeta E, gateConstraints []E) [][2]E {
	n := uint64(1) << sh.DegreeBits
	zetaPowN := zeta
	for i := uint(0); i < sh.DegreeBits; i++ {
		zetaPowN = b.EMul(zetaPowN, zetaPowN)
	}
	l0 := b.EvalL0(n, zeta, zetaPowN)
	var z1Terms, ppTerms []E
	for i := 0; i < sh.NumChallenges; i++ {
		z1Terms = append(z1Terms, b.EMul(l0, b.ESub(op.Zs[i], b.EOne())))
		var nums, dens []E
		for j := 0; j < sh.NumRoutedWires; j++ {
			sID := b.EScalar(zeta, b.Const(sh.KIs[j]))
			wg := b.EAdd(op.Wires[j], b.EFromBase(gammas[i]))
			nums = append(nums, b.EAdd(b.EScalar(sID, betas[i]), wg))
			dens = append(dens, b.EAdd(b.EScalar(op.Sigmas[j], betas[i]), wg))
		}
		accs := []E{op.Zs[i]}
		accs = append(accs, op.PartialProducts[i*sh.NumPartialProducts:(i+1)*sh.NumPartialProducts]...)
		accs = append(accs, op.ZsNext[i])
		cs := sh.QuotientDegreeFactor
		for c := 0; c*cs < len(nums); c++ {
			np, dp := b.EOne(), b.EOne()
			for k := c * cs; k < (c+1)*cs && k < len(nums); k++ {
				np = b.EMul(np, nums[k])
				dp = b.EMul(dp, dens[k])
			}
			ppTerms = append(ppTerms, b.ESub(b.EMul(accs[c], np), b.EMul(accs[c+1], dp)))
		}
	}
	terms := append(append(append([]E{}, z1Terms...), ppTerms...), gateConstraints...)
	zh := b.ESub(zetaPowN, b.EOne())
	var out [][2]E
	for i := 0; i < sh.NumChallenges; i++ {
		acc := b.EZero()
		for k := len(terms) - 1; k >= 0; k-- {
			acc = b.EAdd(b.EScalar(acc, alphas[i]), terms[k])
		}
		q := op.Quotients[i*sh.QuotientDegreeFactor : (i+1)*sh.QuotientDegreeFactor]
		t := b.EReduceWithPowers(q, zetaPowN)
		out = append(out, [2]E{acc, b.EMul(zh, t)})
	}
	return out
}
