package ref

import "math/big"

// E is an element of GF(p^2) = GF(p)[X]/(X^2 - 7); A an element of the degree-2 extension algebra
// E[Y]/(Y^2 - 7) used by plonky2's recursive gates.
type E [2]*N
type A [2]E

const W = 7

func (b *B) EZero() E          { return E{b.Zero(), b.Zero()} }
func (b *B) EOne() E           { return E{b.One(), b.Zero()} }
func (b *B) EFromBase(x *N) E  { return E{x, b.Zero()} }
func (b *B) EConstU(c uint64) E { return E{b.ConstU(c), b.Zero()} }
func (b *B) EAdd(x, y E) E     { return E{b.Add(x[0], y[0]), b.Add(x[1], y[1])} }
func (b *B) ESub(x, y E) E     { return E{b.Sub(x[0], y[0]), b.Sub(x[1], y[1])} }
func (b *B) ENeg(x E) E        { return E{b.Neg(x[0]), b.Neg(x[1])} }
func (b *B) EScalar(x E, s *N) E { return E{b.Mul(x[0], s), b.Mul(x[1], s)} }

func (b *B) EMul(x, y E) E {
	w := b.ConstU(W)
	return E{
		b.Add(b.Mul(x[0], y[0]), b.Mul(w, b.Mul(x[1], y[1]))),
		b.Add(b.Mul(x[0], y[1]), b.Mul(x[1], y[0])),
	}
}

// EInv: 1/x = conj(x) / N(x), N(x) = x0^2 - 7 x1^2.
func (b *B) EInv(x E) E {
	w := b.ConstU(W)
	norm := b.Sub(b.Mul(x[0], x[0]), b.Mul(w, b.Mul(x[1], x[1])))
	ni := b.Inv(norm)
	return E{b.Mul(x[0], ni), b.Neg(b.Mul(x[1], ni))}
}

func (b *B) EDiv(x, y E) E { return b.EMul(x, b.EInv(y)) }

// EExp is plonky2's Field::exp_u64 (least significant bit first).
func (b *B) EExp(x E, e uint64) E {
	cur := x
	prod := b.EOne()
	for j := 0; j < 64 && e>>uint(j) != 0; j++ {
		if e>>uint(j)&1 == 1 {
			prod = b.EMul(prod, cur)
		}
		cur = b.EMul(cur, cur)
	}
	return prod
}

// EExpMSB is the textbook most-significant-bit-first square-and-multiply (cross-check for small exponents).
func (b *B) EExpMSB(x E, e uint64) E {
	r := b.EOne()
	for i := 63; i >= 0; i-- {
		r = b.EMul(r, r)
		if e>>uint(i)&1 == 1 {
			r = b.EMul(r, x)
		}
	}
	return r
}

func (b *B) EIsZero(x E) *N { return b.Mul(b.IsZero(x[0]), b.IsZero(x[1])) }

func (b *B) EIte(c *N, x, y E) E { return E{b.Ite(c, x[0], y[0]), b.Ite(c, x[1], y[1])} }

// EReduceWithPowers = sum_i terms[i] * alpha^i.
func (b *B) EReduceWithPowers(terms []E, alpha E) E {
	acc := b.EZero()
	for i := len(terms) - 1; i >= 0; i-- {
		acc = b.EAdd(b.EMul(acc, alpha), terms[i])
	}
	return acc
}

// EInnerProduct = start + c * sum_i a_i * b_i  (the shape of the repository's helper).
func (b *B) EInnerProduct(c *N, start E, pairs [][2]E) E {
	acc := start
	for _, pr := range pairs {
		acc = b.EAdd(acc, b.EMul(b.EScalar(pr[0], c), pr[1]))
	}
	return acc
}

// ---- algebra ---------------------------------------------------------------------------------

func (b *B) AZero() A        { return A{b.EZero(), b.EZero()} }
func (b *B) AOne() A         { return A{b.EOne(), b.EZero()} }
func (b *B) AFromE(x E) A    { return A{x, b.EZero()} }
func (b *B) AAdd(x, y A) A   { return A{b.EAdd(x[0], y[0]), b.EAdd(x[1], y[1])} }
func (b *B) ASub(x, y A) A   { return A{b.ESub(x[0], y[0]), b.ESub(x[1], y[1])} }
func (b *B) AScalar(s E, x A) A { return A{b.EMul(s, x[0]), b.EMul(s, x[1])} }
func (b *B) AMul(x, y A) A {
	w := b.EConstU(W)
	return A{
		b.EAdd(b.EMul(x[0], y[0]), b.EMul(w, b.EMul(x[1], y[1]))),
		b.EAdd(b.EMul(x[0], y[1]), b.EMul(x[1], y[0])),
	}
}

// APartialInterpolate is plonky2's partial_interpolate_ext_algebra.
func (b *B) APartialInterpolate(domain []*big.Int, values []A, weights []*big.Int, point, initEval, initProd A) (A, A) {
	eval, prod := initEval, initProd
	for i := range values {
		x := b.AFromE(b.EFromBase(b.Const(domain[i])))
		term := b.ASub(point, x)
		wv := b.AScalar(b.EFromBase(b.Const(weights[i])), values[i])
		eval = b.AAdd(b.AMul(eval, term), b.AMul(wv, prod))
		prod = b.AMul(prod, term)
	}
	return eval, prod
}
