package ref

import "math/big"

// FRI verifier algebra of plonky2 (fri/verifier.rs), native-field formulation.

// GL field helpers on concrete values.
func glPow(x *big.Int, e uint64) *big.Int {
	return new(big.Int).Exp(x, new(big.Int).SetUint64(e), P)
}

// MultiplicativeGenerator and the 2^32-th root of unity of the Goldilocks field (plonky2 constants).
var (
	GLGenerator          = big.NewInt(7)
	GLPowerOfTwoGen      = new(big.Int).SetUint64(1753635133440165772)
	GLTwoAdicity    uint = 32
)

// PrimitiveRootOfUnity(nLog) = POWER_OF_TWO_GENERATOR^(2^(32-nLog)).
func PrimitiveRootOfUnity(nLog uint) *big.Int {
	r := new(big.Int).Set(GLPowerOfTwoGen)
	for i := uint(0); i < GLTwoAdicity-nLog; i++ {
		r.Mul(r, r).Mod(r, P)
	}
	return r
}

// SubgroupX: g * w^(reverse_bits(index, nLog)), index given by little-endian bits.
func (b *B) SubgroupX(bits []*N, nLog uint) *N {
	w := PrimitiveRootOfUnity(nLog)
	// w^rev(index) = prod_j (w^(2^(n-1-j)))^(bit_j); multiplied out starting with the most
	// significant index bit (the factor w^1), then scaled by the coset shift g
	acc := b.One()
	n := len(bits)
	for j := n - 1; j >= 0; j-- {
		f := glPow(w, uint64(1)<<uint(n-1-j))
		acc = b.Mul(acc, b.Ite(bits[j], b.Const(f), b.One()))
	}
	return b.Mul(b.Const(GLGenerator), acc)
}

// Reduce with powers: sum_i terms[i] * alpha^i (plonky2 ReducingFactor::reduce).
func (b *B) friReduce(terms []E, alpha E) E { return b.EReduceWithPowers(terms, alpha) }

type FriBatch struct {
	Point E
	// Evals are the (base field) evaluations of the batch's polynomials at the query point, taken
	// from the initial-tree leaves, in the order of the batch's polynomial list.
	Evals []*N
	// Openings are the claimed openings at Point in the same order.
	Openings []E
}

// FriCombineInitial is plonky2's fri_combine_initial.
func (b *B) FriCombineInitial(batches []FriBatch, alpha E, x *N) E {
	sum := b.EZero()
	xe := b.EFromBase(x)
	for _, bt := range batches {
		var evs []E
		for _, e := range bt.Evals {
			evs = append(evs, b.EFromBase(e))
		}
		reducedEvals := b.friReduce(evs, alpha)
		reducedOpenings := b.friReduce(bt.Openings, alpha)
		num := b.ESub(reducedEvals, reducedOpenings)
		den := b.ESub(xe, bt.Point)
		sum = b.EMul(sum, b.EExp(alpha, uint64(len(evs))))
		sum = b.EAdd(sum, b.EDiv(num, den))
	}
	return sum
}

// reverse the low `bits` bits of i
func revBits(i, bits int) int {
	r := 0
	for k := 0; k < bits; k++ {
		if i>>k&1 == 1 {
			r |= 1 << (bits - 1 - k)
		}
	}
	return r
}

// ComputeEvaluation is plonky2's compute_evaluation: interpolate the arity evaluations over the
// coset of x and evaluate at beta. withinBits are the little-endian bits of x_index_within_coset.
func (b *B) ComputeEvaluation(x *N, withinBits []*N, arityBits uint, evals []E, beta E) E {
	arity := 1 << arityBits
	g := PrimitiveRootOfUnity(arityBits)
	// reverse_index_bits_in_place
	perm := make([]E, arity)
	for i := 0; i < arity; i++ {
		perm[revBits(i, int(arityBits))] = evals[i]
	}
	// coset_start = x * g^(arity - rev(x_index_within_coset)) = x * (g^-1)^rev(...)
	gInv := glPow(g, uint64(arity-1))
	pw := b.One()
	n := len(withinBits)
	for j := n - 1; j >= 0; j-- {
		f := glPow(gInv, uint64(1)<<uint(n-1-j))
		pw = b.Mul(pw, b.Ite(withinBits[j], b.Const(f), b.One()))
	}
	start := b.Mul(pw, x)
	// points x*g^i, obtained by iterated multiplication by g (as plonky2's g.powers() scaled by the
	// coset start; written iteratively so that no constant is pre-reduced modulo p)
	pts := make([]E, arity)
	cur := start
	for i := 0; i < arity; i++ {
		pts[i] = b.EFromBase(cur)
		cur = b.Mul(cur, b.Const(g))
	}
	return b.Interpolate(pts, perm, beta)
}

// Interpolate: barycentric Lagrange interpolation at x (x not among the points).
func (b *B) Interpolate(xs, ys []E, x E) E {
	n := len(xs)
	w := make([]E, n)
	for i := 0; i < n; i++ {
		p := b.EOne()
		for j := 0; j < n; j++ {
			if i != j {
				p = b.EMul(p, b.ESub(xs[i], xs[j]))
			}
		}
		w[i] = b.EInv(p)
	}
	lx := b.EOne()
	for i := 0; i < n; i++ {
		lx = b.EMul(lx, b.ESub(x, xs[i]))
	}
	sum := b.EZero()
	for i := 0; i < n; i++ {
		sum = b.EAdd(sum, b.EMul(b.EDiv(w[i], b.ESub(x, xs[i])), ys[i]))
	}
	// precondition: x is not one of the points (plonky2 returns the matching y_i in that case; the
	// circuit is unsatisfiable there because it asserts x - x_i != 0 before dividing)
	return b.EMul(lx, sum)
}

// FinalPolyEval: Horner evaluation.
func (b *B) FinalPolyEval(coeffs []E, x E) E {
	acc := b.EZero()
	for i := len(coeffs) - 1; i >= 0; i-- {
		acc = b.EAdd(b.EMul(acc, x), coeffs[i])
	}
	return acc
}

// SelectByBits returns list[sum bits_j 2^j].
func (b *B) ESelectByBits(list []E, bits []*N) E {
	cur := list
	for _, bit := range bits {
		next := make([]E, len(cur)/2)
		for i := range next {
			next[i] = b.EIte(bit, cur[2*i+1], cur[2*i])
		}
		cur = next
	}
	return cur[0]
}

// QueryRoundConditions returns the pairs that plonky2's fri_verifier_query_round requires to be
// equal (Merkle checks excluded): per step (evals[x_index_within_coset], old_eval), and finally
// (final_poly(x), old_eval).
func (b *B) QueryRoundConditions(indexBits []*N, nLog uint, arities []uint, batches []FriBatch, alpha E, stepEvals [][]E, betas []E, finalPoly []E) [][2]E {
	var conds [][2]E
	x := b.SubgroupX(indexBits, nLog)
	old := b.FriCombineInitial(batches, alpha, x)
	bits := indexBits
	for i, ab := range arities {
		within := bits[:ab]
		conds = append(conds, [2]E{b.ESelectByBits(stepEvals[i], within), old})
		old = b.ComputeEvaluation(x, within, ab, stepEvals[i], betas[i])
		for k := uint(0); k < ab; k++ {
			x = b.Mul(x, x)
		}
		bits = bits[ab:]
	}
	conds = append(conds, [2]E{old, b.FinalPolyEval(finalPoly, b.EFromBase(x))})
	return conds
}
