package ref

import "math/big"

// SetConcreteHashes makes Eval interpret permGL / permBN / chunk by the real functions.
func SetConcreteHashes(kg *GLConsts, kb *BN128Consts) {
	if kg != nil {
		ConcreteUF["permGL"] = func(idx int, args []*big.Int) *big.Int {
			b := NewB()
			var s GLState
			for i := range s {
				s[i] = b.Const(args[i])
			}
			o := b.GLPermutation(kg, s)
			return Eval(o[idx], nil, map[*N]*big.Int{})
		}
	}
	if kb != nil {
		ConcreteUF["permBN"] = func(idx int, args []*big.Int) *big.Int {
			b := NewB()
			var s BNState
			for i := range s {
				s[i] = b.ConstR(args[i])
			}
			o := b.BNPermutation(kb, s)
			return Eval(o[idx], nil, map[*N]*big.Int{})
		}
	}
	ConcreteUF["chunk"] = func(idx int, args []*big.Int) *big.Int {
		v := new(big.Int).Rsh(args[0], uint(56*idx))
		return v.And(v, new(big.Int).Sub(new(big.Int).Lsh(big.NewInt(1), 56), big.NewInt(1)))
	}
}

func ClearConcreteHashes() {
	for k := range ConcreteUF {
		delete(ConcreteUF, k)
	}
}
