package ref

import (
	"fmt"
	"math/big"
	"os"
	"regexp"
	"strconv"
)

// PoseidonBN128 as specified by crypto/plonky2_bn128/src/poseidon_bn128.rs and config.rs of this
// monorepo (an independent Rust implementation used by the plonky2 side). Constants are parsed
// from poseidon_bn128_constants.rs at run time.

type BN128Consts struct {
	C []*big.Int
	S []*big.Int
	M [4][4]*big.Int
	P [4][4]*big.Int
}

var reC = regexp.MustCompile(`(c_constants|s_constants)\[(\d+)\]\s*=\s*Fr::from_str_vartime\(\s*"(\d+)"`)
var reM = regexp.MustCompile(`(m_matrix|p_matrix)\[(\d+)\]\[(\d+)\]\s*=\s*Fr::from_str_vartime\(\s*"(\d+)"`)

func LoadBN128Consts(path string) (*BN128Consts, error) {
	data, err := os.ReadFile(path)
	if err != nil {
		return nil, err
	}
	k := &BN128Consts{}
	cm, sm := map[int]*big.Int{}, map[int]*big.Int{}
	for _, m := range reC.FindAllStringSubmatch(string(data), -1) {
		i, _ := strconv.Atoi(m[2])
		v, _ := new(big.Int).SetString(m[3], 10)
		if m[1] == "c_constants" {
			cm[i] = v
		} else {
			sm[i] = v
		}
	}
	for i := 0; i < len(cm); i++ {
		if cm[i] == nil {
			return nil, fmt.Errorf("c_constants[%d] missing", i)
		}
		k.C = append(k.C, cm[i])
	}
	for i := 0; i < len(sm); i++ {
		if sm[i] == nil {
			return nil, fmt.Errorf("s_constants[%d] missing", i)
		}
		k.S = append(k.S, sm[i])
	}
	n := 0
	for _, m := range reM.FindAllStringSubmatch(string(data), -1) {
		i, _ := strconv.Atoi(m[2])
		j, _ := strconv.Atoi(m[3])
		v, _ := new(big.Int).SetString(m[4], 10)
		if m[1] == "m_matrix" {
			k.M[i][j] = v
		} else {
			k.P[i][j] = v
		}
		n++
	}
	if len(k.C) != 88 || len(k.S) != 392 || n != 32 {
		return nil, fmt.Errorf("unexpected constant counts: C=%d S=%d matrix entries=%d", len(k.C), len(k.S), n)
	}
	return k, nil
}

const (
	bnWidth   = 4
	bnFull    = 8
	bnPartial = 56
)

type BNState [4]*N

func (b *B) bnArk(k *BN128Consts, s BNState, it int) BNState {
	for i := 0; i < bnWidth; i++ {
		s[i] = b.Add(s[i], b.ConstR(k.C[it+i]))
	}
	return s
}

func (b *B) bnExp5(x *N) *N {
	x2 := b.Mul(x, x)
	x4 := b.Mul(x2, x2)
	return b.Mul(x4, x)
}

func (b *B) bnMix(s BNState, m *[4][4]*big.Int) BNState {
	var r BNState
	for i := 0; i < bnWidth; i++ {
		acc := b.ConstR(big.NewInt(0))
		for j := 0; j < bnWidth; j++ {
			acc = b.Add(acc, b.Mul(b.ConstR(m[j][i]), s[j]))
		}
		r[i] = acc
	}
	return r
}

func (b *B) bnFullRounds(k *BN128Consts, s BNState, first bool) BNState {
	for i := 0; i < bnFull/2-1; i++ {
		for j := range s {
			s[j] = b.bnExp5(s[j])
		}
		if first {
			s = b.bnArk(k, s, (i+1)*bnWidth)
		} else {
			s = b.bnArk(k, s, (bnFull/2+1)*bnWidth+bnPartial+i*bnWidth)
		}
		s = b.bnMix(s, &k.M)
	}
	for j := range s {
		s[j] = b.bnExp5(s[j])
	}
	if first {
		s = b.bnArk(k, s, (bnFull/2)*bnWidth)
		s = b.bnMix(s, &k.P)
	} else {
		s = b.bnMix(s, &k.M)
	}
	return s
}

func (b *B) bnPartialRounds(k *BN128Consts, s BNState) BNState {
	for i := 0; i < bnPartial; i++ {
		s[0] = b.bnExp5(s[0])
		s[0] = b.Add(s[0], b.ConstR(k.C[(bnFull/2+1)*bnWidth+i]))
		n0 := b.ConstR(big.NewInt(0))
		for j := 0; j < bnWidth; j++ {
			n0 = b.Add(n0, b.Mul(b.ConstR(k.S[(bnWidth*2-1)*i+j]), s[j]))
		}
		for t := 1; t < bnWidth; t++ {
			s[t] = b.Add(s[t], b.Mul(s[0], b.ConstR(k.S[(bnWidth*2-1)*i+bnWidth+t-1])))
		}
		s[0] = n0
	}
	return s
}

// BNPermutation is `permution` of poseidon_bn128.rs.
func (b *B) BNPermutation(k *BN128Consts, s BNState) BNState {
	s = b.bnArk(k, s, 0)
	s = b.bnFullRounds(k, s, true)
	s = b.bnPartialRounds(k, s)
	s = b.bnFullRounds(k, s, false)
	return s
}

// BNPerm is either the concrete permutation or an uninterpreted one.
type BNPerm func(s BNState) BNState

func (b *B) BNPermConcrete(k *BN128Consts) BNPerm {
	return func(s BNState) BNState { return b.BNPermutation(k, s) }
}

func (b *B) BNPermUF() BNPerm {
	return func(s BNState) BNState {
		var o BNState
		for i := range o {
			o[i] = b.UF("permBN", i, true, s[0], s[1], s[2], s[3])
		}
		return o
	}
}

// packLE packs up to three canonical Goldilocks elements little-endian into one F_r element
// (8 bytes each), as config.rs does through byte strings.
func (b *B) bnPack(chunk []*N) *N {
	acc := b.ConstR(big.NewInt(0))
	for i, g := range chunk {
		sh := new(big.Int).Lsh(big.NewInt(1), uint(64*i))
		acc = b.Add(acc, b.Mul(b.ConstR(sh), b.asR(g)))
	}
	return acc
}

// asR re-interprets a GF(p) node as an F_r value (the canonical representative).
func (b *B) asR(g *N) *N {
	if g.BigMod {
		return g
	}
	if g.Op == OConst {
		return b.ConstR(g.K)
	}
	return b.mk(&N{Op: OAdd, A: g, B: b.ConstR(big.NewInt(0)), BigMod: true}, fmt.Sprintf("asR:%d", g.ID))
}

// BNHashNoPad is hash_no_pad of config.rs.
func (b *B) BNHashNoPad(perm BNPerm, in []*N) *N {
	z := b.ConstR(big.NewInt(0))
	s := BNState{z, z, z, z}
	for i := 0; i < len(in); i += 9 {
		end := i + 9
		if end > len(in) {
			end = len(in)
		}
		rate := in[i:end]
		for j := 0; j*3 < len(rate); j++ {
			e := j*3 + 3
			if e > len(rate) {
				e = len(rate)
			}
			s[j+1] = b.bnPack(rate[j*3 : e])
		}
		s = perm(s)
	}
	return s[0]
}

// BNHashOrNoop is hash_or_noop of config.rs.
func (b *B) BNHashOrNoop(perm BNPerm, in []*N) *N {
	if len(in) <= 3 {
		return b.bnPack(in)
	}
	return b.BNHashNoPad(perm, in)
}

// BNTwoToOne is two_to_one of config.rs.
func (b *B) BNTwoToOne(perm BNPerm, l, r *N) *N {
	z := b.ConstR(big.NewInt(0))
	return perm(BNState{z, z, l, r})[0]
}
