package ref

// Duplex-sponge challenger of plonky2 (overwrite mode, rate 8, outputs popped from the end,
// output buffer cleared on observe) and the transcript order of Proof::get_challenges /
// fri_challenges.

const SpongeRate = 8

type Challenger struct {
	B     *B
	Perm  GLPerm
	State GLState
	In    []*N
	Out   []*N
	// ToVec converts a BN254 hash into Goldilocks elements (plonky2: 7-byte chunks).
	ToVec func(h *N) []*N
}

func NewChallenger(b *B, perm GLPerm, toVec func(h *N) []*N) *Challenger {
	c := &Challenger{B: b, Perm: perm, ToVec: toVec}
	for i := range c.State {
		c.State[i] = b.Zero()
	}
	return c
}

// ChunkUF is the uninterpreted 56-bit chunking of a BN254 hash.
func (b *B) ChunkUF(h *N) []*N {
	out := make([]*N, 5)
	for i := range out {
		out[i] = b.UF("chunk", i, false, h)
	}
	return out
}

func (c *Challenger) duplexing() {
	if len(c.In) > SpongeRate {
		panic("input buffer longer than the rate")
	}
	for i, x := range c.In {
		c.State[i] = x
	}
	c.In = nil
	c.State = c.Perm(c.State)
	c.Out = append([]*N{}, c.State[:SpongeRate]...)
}

func (c *Challenger) ObserveElement(e *N) {
	c.Out = nil
	c.In = append(c.In, e)
	if len(c.In) == SpongeRate {
		c.duplexing()
	}
}

func (c *Challenger) ObserveElements(es []*N) {
	for _, e := range es {
		c.ObserveElement(e)
	}
}
func (c *Challenger) ObserveHashGL(h [4]*N) { c.ObserveElements(h[:]) }
func (c *Challenger) ObserveHashBN(h *N)    { c.ObserveElements(c.ToVec(h)) }
func (c *Challenger) ObserveCap(cap []*N) {
	for _, h := range cap {
		c.ObserveHashBN(h)
	}
}
func (c *Challenger) ObserveExt(e E) { c.ObserveElement(e[0]); c.ObserveElement(e[1]) }
func (c *Challenger) ObserveExts(es []E) {
	for _, e := range es {
		c.ObserveExt(e)
	}
}

func (c *Challenger) GetChallenge() *N {
	if len(c.In) != 0 || len(c.Out) == 0 {
		c.duplexing()
	}
	x := c.Out[len(c.Out)-1]
	c.Out = c.Out[:len(c.Out)-1]
	return x
}

func (c *Challenger) GetNChallenges(n int) []*N {
	out := make([]*N, n)
	for i := range out {
		out[i] = c.GetChallenge()
	}
	return out
}

func (c *Challenger) GetExtChallenge() E {
	v := c.GetNChallenges(2)
	return E{v[0], v[1]}
}

func (c *Challenger) GetHash() [4]*N {
	v := c.GetNChallenges(4)
	return [4]*N{v[0], v[1], v[2], v[3]}
}

type FriChallenges struct {
	Alpha        E
	Betas        []E
	PowResponse  *N
	QueryIndices []*N
}

func (c *Challenger) FriChallenges(commitCaps [][]*N, finalPoly []E, powWitness *N, numQueries int) FriChallenges {
	var f FriChallenges
	f.Alpha = c.GetExtChallenge()
	for _, cap := range commitCaps {
		c.ObserveCap(cap)
		f.Betas = append(f.Betas, c.GetExtChallenge())
	}
	c.ObserveExts(finalPoly)
	c.ObserveElement(powWitness)
	f.PowResponse = c.GetChallenge()
	f.QueryIndices = c.GetNChallenges(numQueries)
	return f
}

// ProofData is the part of a plonky2 proof the transcript absorbs.
type ProofData struct {
	CircuitDigest    *N
	PublicInputsHash [4]*N
	WiresCap         []*N
	ZsPartialCap     []*N
	QuotientCap      []*N
	// openings in to_fri_openings order
	Constants, Sigmas, Wires, Zs, PartialProducts, Quotients, ZsNext []E
	CommitCaps                                                       [][]*N
	FinalPoly                                                        []E
	PowWitness                                                       *N
}

type Challenges struct {
	Betas, Gammas, Alphas []*N
	Zeta                  E
	Fri                   FriChallenges
}

// GetChallenges is plonky2's Proof::get_challenges.
func (c *Challenger) GetChallenges(p *ProofData, numChallenges, numQueries int) Challenges {
	var ch Challenges
	c.ObserveHashBN(p.CircuitDigest)
	c.ObserveHashGL(p.PublicInputsHash)
	c.ObserveCap(p.WiresCap)
	ch.Betas = c.GetNChallenges(numChallenges)
	ch.Gammas = c.GetNChallenges(numChallenges)
	c.ObserveCap(p.ZsPartialCap)
	ch.Alphas = c.GetNChallenges(numChallenges)
	c.ObserveCap(p.QuotientCap)
	ch.Zeta = c.GetExtChallenge()
	for _, l := range [][]E{p.Constants, p.Sigmas, p.Wires, p.Zs, p.PartialProducts, p.Quotients} {
		c.ObserveExts(l)
	}
	c.ObserveExts(p.ZsNext)
	ch.Fri = c.FriChallenges(p.CommitCaps, p.FinalPoly, p.PowWitness, numQueries)
	return ch
}

// ---- Merkle ------------------------------------------------------------------------------------

// MerkleRoot folds a leaf digest with the sibling hashes; bit i (little-endian index bit) says
// whether the current node is the right child. Written with the selection inside the compression
// call (two_to_one(ite(b,s,c), ite(b,c,s))), which equals plonky2's if/else form by congruence.
func (b *B) MerkleFold(perm BNPerm, leaf []*N, bits []*N, siblings []*N) *N {
	cur := b.BNHashOrNoop(perm, leaf)
	for i, s := range siblings {
		l := b.Ite(bits[i], s, cur)
		r := b.Ite(bits[i], cur, s)
		cur = b.BNTwoToOne(perm, l, r)
	}
	return cur
}

// CapEntry selects cap[sum bits_j 2^j].
func (b *B) CapEntry(cap []*N, bits []*N) *N {
	cur := cap
	for _, bit := range bits {
		next := make([]*N, len(cur)/2)
		for i := range next {
			next[i] = b.Ite(bit, cur[2*i+1], cur[2*i])
		}
		cur = next
	}
	return cur[0]
}
