package ref

import "math/big"

// Goldilocks Poseidon (width 12, 8 full + 22 partial rounds, x^7) in plonky2's round structure
// (full rounds / fast partial rounds / full rounds) and in the textbook ("naive") structure.

type GLConsts struct {
	RoundConstants []*big.Int      // 12 * 30
	MDSCirc        [12]*big.Int
	MDSDiag        [12]*big.Int
	FastFirstRC    [12]*big.Int
	FastRC         [22]*big.Int
	FastVS         [22][11]*big.Int
	FastWHats      [22][11]*big.Int
	FastInit       [11][11]*big.Int
}

type GLState [12]*N

const (
	glHalfFull = 4
	glPartial  = 22
)

func (b *B) glSbox(x *N) *N {
	x2 := b.Mul(x, x)
	x4 := b.Mul(x2, x2)
	x3 := b.Mul(x, x2)
	return b.Mul(x3, x4)
}

func (b *B) glMds(k *GLConsts, s GLState) GLState {
	var o GLState
	for r := 0; r < 12; r++ {
		acc := b.Zero()
		for i := 0; i < 12; i++ {
			acc = b.Add(acc, b.Mul(s[(i+r)%12], b.Const(k.MDSCirc[i])))
		}
		o[r] = b.Add(acc, b.Mul(s[r], b.Const(k.MDSDiag[r])))
	}
	return o
}

func (b *B) glFull(k *GLConsts, s GLState, ctr *int) GLState {
	for r := 0; r < glHalfFull; r++ {
		for i := 0; i < 12; i++ {
			s[i] = b.Add(s[i], b.Const(k.RoundConstants[i+12*(*ctr)]))
		}
		for i := 0; i < 12; i++ {
			s[i] = b.glSbox(s[i])
		}
		s = b.glMds(k, s)
		*ctr++
	}
	return s
}

func (b *B) glPartialFast(k *GLConsts, s GLState) GLState {
	for i := 0; i < 12; i++ {
		s[i] = b.Add(s[i], b.Const(k.FastFirstRC[i]))
	}
	// mds_partial_layer_init
	var t GLState
	for i := range t {
		t[i] = b.Zero()
	}
	t[0] = s[0]
	for r := 1; r < 12; r++ {
		for c := 1; c < 12; c++ {
			t[c] = b.Add(t[c], b.Mul(s[r], b.Const(k.FastInit[r-1][c-1])))
		}
	}
	s = t
	mds0to0 := new(big.Int).Add(k.MDSCirc[0], k.MDSDiag[0])
	for i := 0; i < glPartial; i++ {
		s[0] = b.glSbox(s[0])
		s[0] = b.Add(s[0], b.Const(k.FastRC[i]))
		// mds_partial_layer_fast
		d := b.Mul(s[0], b.Const(mds0to0))
		for j := 1; j < 12; j++ {
			d = b.Add(d, b.Mul(s[j], b.Const(k.FastWHats[i][j-1])))
		}
		var n GLState
		n[0] = d
		for j := 1; j < 12; j++ {
			n[j] = b.Add(b.Mul(s[0], b.Const(k.FastVS[i][j-1])), s[j])
		}
		s = n
	}
	return s
}

// GLPermutation is plonky2's Poseidon::poseidon (fast partial rounds).
func (b *B) GLPermutation(k *GLConsts, s GLState) GLState {
	ctr := 0
	s = b.glFull(k, s, &ctr)
	s = b.glPartialFast(k, s)
	ctr += glPartial
	s = b.glFull(k, s, &ctr)
	return s
}

// GLPermutationNaive is plonky2's poseidon_naive: every round adds the round constants, applies the
// S-box (to the whole state in full rounds, to element 0 in partial rounds) and the MDS matrix.
// sboxCut, if not nil, is called for every partial-round S-box and may return a replacement node
// (used to compare the fast and naive partial rounds as a linear identity over cut variables).
func (b *B) GLPermutationNaive(k *GLConsts, s GLState, sboxCut func(round int, in *N) *N) GLState {
	ctr := 0
	s = b.glFull(k, s, &ctr)
	for r := 0; r < glPartial; r++ {
		for i := 0; i < 12; i++ {
			s[i] = b.Add(s[i], b.Const(k.RoundConstants[i+12*ctr]))
		}
		if sboxCut != nil {
			s[0] = sboxCut(r, s[0])
		} else {
			s[0] = b.glSbox(s[0])
		}
		s = b.glMds(k, s)
		ctr++
	}
	s = b.glFull(k, s, &ctr)
	return s
}

// GLPartialFastCut is the fast partial-round segment with the S-boxes replaced by sboxCut.
func (b *B) GLPartialFastCut(k *GLConsts, s GLState, sboxCut func(round int, in *N) *N) GLState {
	for i := 0; i < 12; i++ {
		s[i] = b.Add(s[i], b.Const(k.FastFirstRC[i]))
	}
	var t GLState
	for i := range t {
		t[i] = b.Zero()
	}
	t[0] = s[0]
	for r := 1; r < 12; r++ {
		for c := 1; c < 12; c++ {
			t[c] = b.Add(t[c], b.Mul(s[r], b.Const(k.FastInit[r-1][c-1])))
		}
	}
	s = t
	mds0to0 := new(big.Int).Add(k.MDSCirc[0], k.MDSDiag[0])
	for i := 0; i < glPartial; i++ {
		s[0] = sboxCut(i, s[0])
		s[0] = b.Add(s[0], b.Const(k.FastRC[i]))
		d := b.Mul(s[0], b.Const(mds0to0))
		for j := 1; j < 12; j++ {
			d = b.Add(d, b.Mul(s[j], b.Const(k.FastWHats[i][j-1])))
		}
		var n GLState
		n[0] = d
		for j := 1; j < 12; j++ {
			n[j] = b.Add(b.Mul(s[0], b.Const(k.FastVS[i][j-1])), s[j])
		}
		s = n
	}
	return s
}

// GLPartialNaiveCut is the naive partial-round segment (rounds 4..25) with cut S-boxes.
func (b *B) GLPartialNaiveCut(k *GLConsts, s GLState, sboxCut func(round int, in *N) *N) GLState {
	ctr := glHalfFull
	for r := 0; r < glPartial; r++ {
		for i := 0; i < 12; i++ {
			s[i] = b.Add(s[i], b.Const(k.RoundConstants[i+12*ctr]))
		}
		s[0] = sboxCut(r, s[0])
		s = b.glMds(k, s)
		ctr++
	}
	return s
}

type GLPerm func(s GLState) GLState

func (b *B) GLPermConcrete(k *GLConsts) GLPerm {
	return func(s GLState) GLState { return b.GLPermutation(k, s) }
}

func (b *B) GLPermUF() GLPerm {
	return func(s GLState) GLState {
		var o GLState
		for i := range o {
			o[i] = b.UF("permGL", i, false, s[:]...)
		}
		return o
	}
}

// GLHashNToMNoPad is plonky2's hash_n_to_m_no_pad (overwrite-mode sponge, rate 8).
func (b *B) GLHashNToMNoPad(perm GLPerm, in []*N, nOut int) []*N {
	var s GLState
	for i := range s {
		s[i] = b.Zero()
	}
	for i := 0; i < len(in); i += 8 {
		for j := 0; j < 8 && i+j < len(in); j++ {
			s[j] = in[i+j]
		}
		s = perm(s)
	}
	var out []*N
	for {
		for i := 0; i < 8; i++ {
			out = append(out, s[i])
			if len(out) == nOut {
				return out
			}
		}
		s = perm(s)
	}
}

func (b *B) GLHashNoPad(perm GLPerm, in []*N) [4]*N {
	o := b.GLHashNToMNoPad(perm, in, 4)
	return [4]*N{o[0], o[1], o[2], o[3]}
}
