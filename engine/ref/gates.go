package ref

import (
	"fmt"
	"math/big"
	"strings"
)

// plonky2 gate polynomials (gates/*.rs eval_unfiltered), over GF(p^2) openings. Wires and
// constants are extension elements; "algebra" values occupy D = 2 consecutive wires.

type GateVars struct {
	Consts []E
	Wires  []E
	PIH    [4]*N
}

type Gate struct {
	Kind string
	// parameters
	NumOps, NumConsts, NumLimbs, Base, NumCoeffs, Bits, NumCopies, NumExtra, PowerBits, SubgroupBits, Degree uint64
	Weights                                                                                                  []*big.Int
}

func (v *GateVars) alg(start uint64) A { return A{v.Wires[start], v.Wires[start+1]} }

// ID renders the identifier as plonky2's Debug formatting does.
func (g *Gate) ID() string {
	const ph = "PhantomData<plonky2_field::goldilocks_field::GoldilocksField>"
	switch g.Kind {
	case "Noop":
		return "NoopGate"
	case "Constant":
		return fmt.Sprintf("ConstantGate { num_consts: %d }", g.NumConsts)
	case "PublicInput":
		return "PublicInputGate"
	case "Arithmetic":
		return fmt.Sprintf("ArithmeticGate { num_ops: %d }", g.NumOps)
	case "ArithmeticExtension":
		return fmt.Sprintf("ArithmeticExtensionGate { num_ops: %d }", g.NumOps)
	case "MulExtension":
		return fmt.Sprintf("MulExtensionGate { num_ops: %d }", g.NumOps)
	case "BaseSum":
		return fmt.Sprintf("BaseSumGate { num_limbs: %d } + Base: %d", g.NumLimbs, g.Base)
	case "Reducing":
		return fmt.Sprintf("ReducingGate { num_coeffs: %d }", g.NumCoeffs)
	case "ReducingExtension":
		return fmt.Sprintf("ReducingExtensionGate { num_coeffs: %d }", g.NumCoeffs)
	case "RandomAccess":
		return fmt.Sprintf("RandomAccessGate { bits: %d, num_copies: %d, num_extra_constants: %d, _phantom: %s }<D=2>", g.Bits, g.NumCopies, g.NumExtra, ph)
	case "Exponentiation":
		return fmt.Sprintf("ExponentiationGate { num_power_bits: %d, _phantom: %s }<D=2>", g.PowerBits, ph)
	case "Poseidon":
		return fmt.Sprintf("PoseidonGate(%s)<WIDTH=12>", ph)
	case "PoseidonMds":
		return fmt.Sprintf("PoseidonMdsGate(%s)<WIDTH=12>", ph)
	case "CosetInterpolation":
		ws := make([]string, len(g.Weights))
		for i, w := range g.Weights {
			ws[i] = w.String()
		}
		return fmt.Sprintf("CosetInterpolationGate { subgroup_bits: %d, degree: %d, barycentric_weights: [%s], _phantom: %s }<D=2>", g.SubgroupBits, g.Degree, strings.Join(ws, ", "), ph)
	}
	panic("gate kind " + g.Kind)
}

// TwoAdicSubgroup(nLog) = {1, w, w^2, ...}.
func TwoAdicSubgroup(nLog uint) []*big.Int {
	w := PrimitiveRootOfUnity(nLog)
	out := []*big.Int{big.NewInt(1)}
	for i := 1; i < 1<<nLog; i++ {
		out = append(out, new(big.Int).Mod(new(big.Int).Mul(out[i-1], w), P))
	}
	return out
}

// BarycentricWeights of the points (native).
func BarycentricWeights(pts []*big.Int) []*big.Int {
	out := make([]*big.Int, len(pts))
	for i := range pts {
		p := big.NewInt(1)
		for j := range pts {
			if i != j {
				d := new(big.Int).Sub(pts[i], pts[j])
				p.Mul(p, d.Mod(d, P)).Mod(p, P)
			}
		}
		out[i] = new(big.Int).ModInverse(p, P)
	}
	return out
}

// Eval returns the gate's constraint values (plonky2 eval_unfiltered).
func (b *B) GateEval(g *Gate, k *GLConsts, v *GateVars) []E {
	var cs []E
	switch g.Kind {
	case "Noop":
	case "Constant":
		for i := uint64(0); i < g.NumConsts; i++ {
			cs = append(cs, b.ESub(v.Consts[i], v.Wires[i]))
		}
	case "PublicInput":
		for i := 0; i < 4; i++ {
			cs = append(cs, b.ESub(v.Wires[i], b.EFromBase(v.PIH[i])))
		}
	case "Arithmetic":
		c0, c1 := v.Consts[0], v.Consts[1]
		for i := uint64(0); i < g.NumOps; i++ {
			m0, m1, ad, out := v.Wires[4*i], v.Wires[4*i+1], v.Wires[4*i+2], v.Wires[4*i+3]
			comp := b.EAdd(b.EMul(b.EMul(m0, m1), c0), b.EMul(ad, c1))
			cs = append(cs, b.ESub(out, comp))
		}
	case "ArithmeticExtension":
		c0, c1 := v.Consts[0], v.Consts[1]
		for i := uint64(0); i < g.NumOps; i++ {
			m0, m1, ad, out := v.alg(8*i), v.alg(8*i+2), v.alg(8*i+4), v.alg(8*i+6)
			comp := b.AAdd(b.AScalar(c0, b.AMul(m0, m1)), b.AScalar(c1, ad))
			d := b.ASub(out, comp)
			cs = append(cs, d[0], d[1])
		}
	case "MulExtension":
		c0 := v.Consts[0]
		for i := uint64(0); i < g.NumOps; i++ {
			m0, m1, out := v.alg(6*i), v.alg(6*i+2), v.alg(6*i+4)
			d := b.ASub(out, b.AScalar(c0, b.AMul(m0, m1)))
			cs = append(cs, d[0], d[1])
		}
	case "BaseSum":
		sum := v.Wires[0]
		limbs := v.Wires[1 : 1+g.NumLimbs]
		comp := b.EReduceWithPowers(limbs, b.EConstU(g.Base))
		cs = append(cs, b.ESub(comp, sum))
		for _, l := range limbs {
			acc := b.EOne()
			for i := uint64(0); i < g.Base; i++ {
				acc = b.EMul(acc, b.ESub(l, b.EConstU(i)))
			}
			cs = append(cs, acc)
		}
	case "Reducing", "ReducingExtension":
		out, alpha, old := v.alg(0), v.alg(2), v.alg(4)
		const start = 6
		ext := g.Kind == "ReducingExtension"
		startAccs := start + g.NumCoeffs
		if ext {
			startAccs = start + 2*g.NumCoeffs
		}
		accAt := func(i uint64) A {
			if i == g.NumCoeffs-1 {
				return out
			}
			return v.alg(startAccs + 2*i)
		}
		acc := old
		for i := uint64(0); i < g.NumCoeffs; i++ {
			var coeff A
			if ext {
				coeff = v.alg(start + 2*i)
			} else {
				coeff = b.AFromE(v.Wires[start+i])
			}
			d := b.ASub(b.AAdd(b.AMul(acc, alpha), coeff), accAt(i))
			cs = append(cs, d[0], d[1])
			acc = accAt(i)
		}
	case "RandomAccess":
		vec := uint64(1) << g.Bits
		routed := (2+vec)*g.NumCopies + g.NumExtra
		for c := uint64(0); c < g.NumCopies; c++ {
			idx := v.Wires[(2+vec)*c]
			claimed := v.Wires[(2+vec)*c+1]
			var items []E
			for i := uint64(0); i < vec; i++ {
				items = append(items, v.Wires[(2+vec)*c+2+i])
			}
			var bits []E
			for i := uint64(0); i < g.Bits; i++ {
				bits = append(bits, v.Wires[routed+c*g.Bits+i])
			}
			for _, bt := range bits {
				cs = append(cs, b.ESub(b.EMul(bt, bt), bt))
			}
			cs = append(cs, b.ESub(b.EReduceWithPowers(bits, b.EConstU(2)), idx))
			for _, bt := range bits {
				var next []E
				for i := 0; i < len(items); i += 2 {
					x, y := items[i], items[i+1]
					next = append(next, b.EAdd(x, b.EMul(bt, b.ESub(y, x))))
				}
				items = next
			}
			cs = append(cs, b.ESub(items[0], claimed))
		}
		for i := uint64(0); i < g.NumExtra; i++ {
			cs = append(cs, b.ESub(v.Consts[i], v.Wires[(2+vec)*g.NumCopies+i]))
		}
	case "Exponentiation":
		n := g.PowerBits
		base := v.Wires[0]
		bit := func(i uint64) E { return v.Wires[1+i] }
		out := v.Wires[1+n]
		inter := func(i uint64) E { return v.Wires[2+n+i] }
		for i := uint64(0); i < n; i++ {
			prev := b.EOne()
			if i > 0 {
				prev = b.EMul(inter(i-1), inter(i-1))
			}
			cur := bit(n - 1 - i)
			// prev * (cur*base + 1 - cur) - inter_i
			notBit := b.ESub(b.EOne(), cur)
			cs = append(cs, b.ESub(b.EMul(prev, b.EAdd(b.EMul(cur, base), notBit)), inter(i)))
		}
		cs = append(cs, b.ESub(out, inter(n-1)))
	case "PoseidonMds":
		var in [12]A
		for i := range in {
			in[i] = v.alg(uint64(2 * i))
		}
		for r := 0; r < 12; r++ {
			acc := b.AZero()
			for i := 0; i < 12; i++ {
				acc = b.AAdd(acc, b.AScalar(b.EFromBase(b.Const(k.MDSCirc[i])), in[(i+r)%12]))
			}
			acc = b.AAdd(acc, b.AScalar(b.EFromBase(b.Const(k.MDSDiag[r])), in[r]))
			d := b.ASub(v.alg(uint64(2*(12+r))), acc)
			cs = append(cs, d[0], d[1])
		}
	case "Poseidon":
		cs = b.poseidonGate(k, v)
	case "CosetInterpolation":
		cs = b.cosetGate(g, v)
	default:
		panic("gate kind " + g.Kind)
	}
	return cs
}

func (b *B) esbox(x E) E {
	x2 := b.EMul(x, x)
	x4 := b.EMul(x2, x2)
	x3 := b.EMul(x, x2)
	return b.EMul(x3, x4)
}

func (b *B) emds(k *GLConsts, s [12]E) [12]E {
	var o [12]E
	for r := 0; r < 12; r++ {
		acc := b.EZero()
		for i := 0; i < 12; i++ {
			acc = b.EAdd(acc, b.EScalar(s[(i+r)%12], b.Const(k.MDSCirc[i])))
		}
		o[r] = b.EAdd(acc, b.EScalar(s[r], b.Const(k.MDSDiag[r])))
	}
	return o
}

func (b *B) poseidonGate(k *GLConsts, v *GateVars) []E {
	var cs []E
	const (
		W          = 12
		startDelta = 2*W + 1
		startFull0 = startDelta + 4
		startPart  = startFull0 + 3*W
		startFull1 = startPart + 22
	)
	swap := v.Wires[2*W]
	cs = append(cs, b.EMul(swap, b.ESub(swap, b.EOne())))
	for i := 0; i < 4; i++ {
		cs = append(cs, b.ESub(b.EMul(swap, b.ESub(v.Wires[i+4], v.Wires[i])), v.Wires[startDelta+i]))
	}
	var s [12]E
	for i := 0; i < 4; i++ {
		d := v.Wires[startDelta+i]
		s[i] = b.EAdd(v.Wires[i], d)
		s[i+4] = b.ESub(v.Wires[i+4], d)
	}
	for i := 8; i < 12; i++ {
		s[i] = v.Wires[i]
	}
	ctr := 0
	constLayer := func() {
		for i := 0; i < 12; i++ {
			s[i] = b.EAdd(s[i], b.EFromBase(b.Const(k.RoundConstants[i+12*ctr])))
		}
	}
	for r := 0; r < 4; r++ {
		constLayer()
		if r != 0 {
			for i := 0; i < 12; i++ {
				in := v.Wires[startFull0+(r-1)*12+i]
				cs = append(cs, b.ESub(s[i], in))
				s[i] = in
			}
		}
		for i := range s {
			s[i] = b.esbox(s[i])
		}
		s = b.emds(k, s)
		ctr++
	}
	for i := 0; i < 12; i++ {
		s[i] = b.EAdd(s[i], b.EFromBase(b.Const(k.FastFirstRC[i])))
	}
	var t [12]E
	for i := range t {
		t[i] = b.EZero()
	}
	t[0] = s[0]
	for r := 1; r < 12; r++ {
		for c := 1; c < 12; c++ {
			t[c] = b.EAdd(t[c], b.EScalar(s[r], b.Const(k.FastInit[r-1][c-1])))
		}
	}
	s = t
	mds0to0 := new(big.Int).Add(k.MDSCirc[0], k.MDSDiag[0])
	partialFast := func(r int) {
		d := b.EScalar(s[0], b.Const(mds0to0))
		for j := 1; j < 12; j++ {
			d = b.EAdd(d, b.EScalar(s[j], b.Const(k.FastWHats[r][j-1])))
		}
		var n [12]E
		n[0] = d
		for j := 1; j < 12; j++ {
			n[j] = b.EAdd(b.EScalar(s[0], b.Const(k.FastVS[r][j-1])), s[j])
		}
		s = n
	}
	for r := 0; r < 21; r++ {
		in := v.Wires[startPart+r]
		cs = append(cs, b.ESub(s[0], in))
		s[0] = b.EAdd(b.esbox(in), b.EFromBase(b.Const(k.FastRC[r])))
		partialFast(r)
	}
	in := v.Wires[startPart+21]
	cs = append(cs, b.ESub(s[0], in))
	s[0] = b.esbox(in)
	partialFast(21)
	ctr += 22
	for r := 0; r < 4; r++ {
		constLayer()
		for i := 0; i < 12; i++ {
			in := v.Wires[startFull1+r*12+i]
			cs = append(cs, b.ESub(s[i], in))
			s[i] = in
		}
		for i := range s {
			s[i] = b.esbox(s[i])
		}
		s = b.emds(k, s)
		ctr++
	}
	for i := 0; i < 12; i++ {
		cs = append(cs, b.ESub(s[i], v.Wires[12+i]))
	}
	return cs
}

func (b *B) cosetGate(g *Gate, v *GateVars) []E {
	var cs []E
	np := uint64(1) << g.SubgroupBits
	startValues := uint64(1)
	startPoint := startValues + np*2
	startValue := startPoint + 2
	startInter := startValue + 2
	nInter := (np - 2) / (g.Degree - 1)
	shift := v.Wires[0]
	evalPoint := v.alg(startPoint)
	shifted := v.alg(startInter + 4*nInter)
	// evaluation_point - shift * shifted_evaluation_point == 0
	d := b.ASub(evalPoint, b.AScalar(shift, shifted))
	cs = append(cs, d[0], d[1])
	domain := TwoAdicSubgroup(uint(g.SubgroupBits))
	var values []A
	for i := uint64(0); i < np; i++ {
		values = append(values, v.alg(startValues+2*i))
	}
	ev, pr := b.APartialInterpolate(domain[:g.Degree], values[:g.Degree], g.Weights[:g.Degree], shifted, b.AZero(), b.AOne())
	for i := uint64(0); i < nInter; i++ {
		ie := v.alg(startInter + 2*i)
		ip := v.alg(startInter + 2*(nInter+i))
		d1 := b.ASub(ie, ev)
		d2 := b.ASub(ip, pr)
		cs = append(cs, d1[0], d1[1], d2[0], d2[1])
		s := 1 + (g.Degree-1)*(i+1)
		e := s + g.Degree - 1
		if e > np {
			e = np
		}
		ev, pr = b.APartialInterpolate(domain[s:e], values[s:e], g.Weights[s:e], shifted, ie, ip)
	}
	dv := b.ASub(v.alg(startValue), ev)
	cs = append(cs, dv[0], dv[1])
	return cs
}

// ComputeFilter is plonky2's compute_filter.
func (b *B) ComputeFilter(row uint64, start, end uint64, s E, many bool) E {
	prod := b.EOne()
	for i := start; i < end; i++ {
		if i == row {
			continue
		}
		prod = b.EMul(prod, b.ESub(b.EConstU(i), s))
	}
	if many {
		prod = b.EMul(prod, b.ESub(b.EConstU(0xFFFFFFFF), s))
	}
	return prod
}

// EvaluateGateConstraints: per gate, unfiltered constraints (computed on the constants with the
// selector prefix removed) times the gate's filter, summed position-wise.
func (b *B) EvaluateGateConstraints(gatesEval []func(v *GateVars) []E, selectorIndices []uint64, groups [][2]uint64, numConstraints int, v *GateVars) []E {
	out := make([]E, numConstraints)
	for i := range out {
		out[i] = b.EZero()
	}
	numSel := uint64(len(groups))
	for i, ge := range gatesEval {
		si := selectorIndices[i]
		f := b.ComputeFilter(uint64(i), groups[si][0], groups[si][1], v.Consts[si], numSel > 1)
		vv := &GateVars{Consts: v.Consts[numSel:], Wires: v.Wires, PIH: v.PIH}
		for j, c := range ge(vv) {
			out[j] = b.EAdd(out[j], b.EMul(c, f))
		}
	}
	return out
}
