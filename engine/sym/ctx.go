package sym

import (
	"fmt"
	"math/big"
	"reflect"
	"runtime"
	"strings"

	"github.com/consensys/gnark/constraint/solver"
	"github.com/consensys/gnark/frontend"
)

type ConsKind uint8

const (
	CEq    ConsKind = iota // A == B (in F_r)
	CBool                  // A in {0,1}
	CRange                 // 0 <= A < 2^N   (fact supplied by a native range checker / ideal lookup)
	CLeq                   // A <= B as integers (B constant)   (MustBeLessOrEqCst)
	CNeq                   // A != B
)

type Constraint struct {
	Kind ConsKind
	A, B *Term
	N    int
	Site string
}

type HintRec struct {
	Name string
	In   []*Term
	Out  []*Term
	Site string
}

type nilAPI = frontend.API
type nilCompiler = frontend.Compiler

// Ctx carries the state of one symbolic execution.
type Ctx struct {
	nilAPI      // nil: API methods not implemented below panic when called
	nilCompiler // nil: same for compiler methods
	nextID      int
	NodeCnt     int
	Atoms       []*Term
	Cons        []Constraint
	Hints       []HintRec
	deferred    []func(frontend.API) error
	kv          map[any]any
	// ShadowOn: inputs carry concrete values and every node is evaluated alongside; hints are
	// computed with the real hint functions (honest prover).
	ShadowOn  bool
	AliasMode bool // compound results are mutable accumulators (see Mut)
	// AliasSubst: in alias mode, what the storage of a plain variable holds after api.MulAcc rewrote it
	// in place (gnark's R1CS builder does so when the result still has a single term: the variable
	// plus a constant multiple of itself); later uses of that variable read the new contents
	AliasSubst map[*Term]*Term
	// Self is the API value handed to circuit code (one of the capability wrappers).
	Self frontend.API
	// CommitSummary: when a lookup argument (logderivarg) is built on top of Commit, membership
	// facts are recorded and assertions on commitment-tainted terms are skipped.
	tainted map[*Term]bool
	// SitePrefix filters frames for call-site strings.
	SiteFilter string
	// Panics from unimplemented API methods are reported with this name.
	consts map[string]*Term
	// HintFns allows shadow evaluation of hints by name.
	NoSites bool
	all     []*Term
	refined bool
	Info    map[string]any
}

func NewCtx() *Ctx {
	return &Ctx{kv: map[any]any{}, tainted: map[*Term]bool{}, SiteFilter: "example-near-light-client", consts: map[string]*Term{}}
}

func (e *Ctx) newTerm(t *Term) *Term {
	e.nextID++
	t.ID = e.nextID
	e.NodeCnt++
	e.all = append(e.all, t)
	if len(e.tainted) != 0 {
		for _, a := range t.Args {
			if e.tainted[a] {
				e.tainted[t] = true
				break
			}
		}
	}
	return t
}

func (e *Ctx) Const(v *big.Int) *Term {
	c := new(big.Int).Mod(v, R)
	key := c.String()
	if t, ok := e.consts[key]; ok {
		return t
	}
	t := e.newTerm(&Term{Op: OpConst, C: c, Lo: c, Hi: c})
	if e.ShadowOn {
		t.Shadow = c
	}
	e.consts[key] = t
	return t
}

func (e *Ctx) ConstU(v uint64) *Term { return e.Const(new(big.Int).SetUint64(v)) }

// Atom creates a fresh variable with integer range [0, hi].
func (e *Ctx) Atom(name, kind string, hi *big.Int) *Term {
	t := e.newTerm(&Term{Op: OpAtom, Name: fmt.Sprintf("%s_%d", name, e.nextID+1), Kind: kind, Lo: zero, Hi: hi})
	e.Atoms = append(e.Atoms, t)
	return t
}

// NamedAtom creates an atom with exactly the given name (caller guarantees uniqueness).
func (e *Ctx) NamedAtom(name, kind string, hi *big.Int) *Term {
	t := e.newTerm(&Term{Op: OpAtom, Name: name, Kind: kind, Lo: zero, Hi: hi})
	e.Atoms = append(e.Atoms, t)
	return t
}

// K converts a frontend.Variable to a term, exactly as gnark's utils.FromInterface does for
// constants.
// Mut is a linear expression handed out in alias mode: gnark's builders may extend the storage of
// the first operand of MulAcc in place (frontend.API: "MulAcc ... may mutate a without allocating a
// new result. If the input is used elsewhere, then first initialize new variable"). In alias mode
// every compound result is such an object and MulAcc always uses that licence, so code that keeps
// using the old value of an accumulator is seen to read the new one.
type Mut struct{ T *Term }

func (e *Ctx) wrap(t *Term) frontend.Variable {
	if !e.AliasMode || t.Op == OpAtom || t.Op == OpConst {
		return t
	}
	return &Mut{T: t}
}

func (e *Ctx) K(v frontend.Variable) *Term {
	if t, ok := v.(*Term); ok {
		if e.AliasSubst != nil {
			if s, ok := e.AliasSubst[t]; ok {
				return s
			}
		}
		return t
	}
	if m, ok := v.(*Mut); ok {
		return m.T
	}
	var b big.Int
	switch x := v.(type) {
	case big.Int:
		b.Set(&x)
	case *big.Int:
		b.Set(x)
	case uint8:
		b.SetUint64(uint64(x))
	case uint16:
		b.SetUint64(uint64(x))
	case uint32:
		b.SetUint64(uint64(x))
	case uint64:
		b.SetUint64(x)
	case uint:
		b.SetUint64(uint64(x))
	case int8:
		b.SetInt64(int64(x))
	case int16:
		b.SetInt64(int64(x))
	case int32:
		b.SetInt64(int64(x))
	case int64:
		b.SetInt64(x)
	case int:
		b.SetInt64(int64(x))
	case string:
		if _, ok := b.SetString(x, 0); !ok {
			panic("unable to set big.Int from string " + x)
		}
	case []byte:
		b.SetBytes(x)
	default:
		if t, ok := v.(interface{ ToBigIntRegular(*big.Int) *big.Int }); ok {
			t.ToBigIntRegular(&b)
		} else {
			panic(fmt.Sprintf("sym: %T to big.Int not supported", v))
		}
	}
	return e.Const(&b)
}

func inR(lo, hi *big.Int) bool { return lo.Sign() >= 0 && hi.Cmp(R) < 0 }

func (e *Ctx) bin(op Op, a, b *Term) *Term {
	if a.Op == OpConst && b.Op == OpConst {
		v := new(big.Int)
		switch op {
		case OpAdd:
			v.Add(a.C, b.C)
		case OpMul:
			v.Mul(a.C, b.C)
		case OpSub:
			v.Sub(a.C, b.C)
		}
		return e.Const(v)
	}
	// cheap identities that gnark's builders also apply (no semantic change)
	if op == OpAdd {
		if a.Op == OpConst && a.C.Sign() == 0 {
			return b
		}
		if b.Op == OpConst && b.C.Sign() == 0 {
			return a
		}
	}
	if op == OpMul {
		if a.Op == OpConst && a.C.Cmp(one) == 0 {
			return b
		}
		if b.Op == OpConst && b.C.Cmp(one) == 0 {
			return a
		}
		if (a.Op == OpConst && a.C.Sign() == 0) || (b.Op == OpConst && b.C.Sign() == 0) {
			return e.Const(zero)
		}
	}
	if op == OpSub && b.Op == OpConst && b.C.Sign() == 0 {
		return a
	}
	var lo, hi *big.Int
	switch op {
	case OpAdd:
		lo, hi = new(big.Int).Add(a.Lo, b.Lo), new(big.Int).Add(a.Hi, b.Hi)
	case OpMul:
		lo, hi = new(big.Int).Mul(a.Lo, b.Lo), new(big.Int).Mul(a.Hi, b.Hi)
	case OpSub:
		lo, hi = new(big.Int).Sub(a.Lo, b.Hi), new(big.Int).Sub(a.Hi, b.Lo)
	}
	t := &Term{Op: op, Args: []*Term{a, b}}
	if inR(lo, hi) {
		t.Lo, t.Hi = lo, hi
	} else {
		t.Wrap = true
		t.Lo, t.Hi = zero, Rm1
	}
	if e.ShadowOn && a.Shadow != nil && b.Shadow != nil {
		v := new(big.Int)
		switch op {
		case OpAdd:
			v.Add(a.Shadow, b.Shadow)
		case OpMul:
			v.Mul(a.Shadow, b.Shadow)
		case OpSub:
			v.Sub(a.Shadow, b.Shadow)
		}
		t.Shadow = v.Mod(v, R)
	}
	return e.newTerm(t)
}

func (e *Ctx) AddT(a, b *Term) *Term { return e.bin(OpAdd, a, b) }
func (e *Ctx) MulT(a, b *Term) *Term { return e.bin(OpMul, a, b) }
func (e *Ctx) SubT(a, b *Term) *Term { return e.bin(OpSub, a, b) }

func (e *Ctx) IteT(c, x, y *Term) *Term {
	if c.Op == OpConst {
		if c.C.Cmp(one) == 0 {
			return x
		}
		if c.C.Sign() == 0 {
			return y
		}
	}
	if x == y {
		return x
	}
	t := &Term{Op: OpIte, Args: []*Term{c, x, y}, Lo: bmin(x.Lo, y.Lo), Hi: bmax(x.Hi, y.Hi)}
	if e.ShadowOn && c.Shadow != nil && x.Shadow != nil && y.Shadow != nil {
		if c.Shadow.Cmp(one) == 0 {
			t.Shadow = x.Shadow
		} else {
			t.Shadow = y.Shadow
		}
	}
	return e.newTerm(t)
}

func (e *Ctx) IsZeroT(a *Term) *Term {
	if a.Op == OpConst {
		if a.C.Sign() == 0 {
			return e.Const(one)
		}
		return e.Const(zero)
	}
	t := &Term{Op: OpIsZero, Args: []*Term{a}, Lo: zero, Hi: one}
	if e.ShadowOn && a.Shadow != nil {
		if a.Shadow.Sign() == 0 {
			t.Shadow = one
		} else {
			t.Shadow = zero
		}
	}
	return e.newTerm(t)
}

// UF applies an uninterpreted function symbol; the result lies in [0, hi].
func (e *Ctx) UF(name string, idx int, hi *big.Int, args ...*Term) *Term {
	return e.newTerm(&Term{Op: OpUF, Name: name, Idx: idx, Args: args, Lo: zero, Hi: hi})
}

// ---------------------------------------------------------------- frontend.API

func (e *Ctx) Add(a, b frontend.Variable, in ...frontend.Variable) frontend.Variable {
	r := e.bin(OpAdd, e.K(a), e.K(b))
	for _, x := range in {
		r = e.bin(OpAdd, r, e.K(x))
	}
	return e.wrap(r)
}
func (e *Ctx) Mul(a, b frontend.Variable, in ...frontend.Variable) frontend.Variable {
	r := e.bin(OpMul, e.K(a), e.K(b))
	for _, x := range in {
		r = e.bin(OpMul, r, e.K(x))
	}
	return e.wrap(r)
}
func (e *Ctx) Sub(a, b frontend.Variable, in ...frontend.Variable) frontend.Variable {
	r := e.bin(OpSub, e.K(a), e.K(b))
	for _, x := range in {
		r = e.bin(OpSub, r, e.K(x))
	}
	return e.wrap(r)
}
func (e *Ctx) Neg(a frontend.Variable) frontend.Variable {
	return e.wrap(e.bin(OpSub, e.Const(zero), e.K(a)))
}
func (e *Ctx) MulAcc(a, b, c frontend.Variable) frontend.Variable {
	r := e.bin(OpAdd, e.K(a), e.bin(OpMul, e.K(b), e.K(c)))
	if at, ok := a.(*Term); ok && e.AliasMode && at.Op == OpAtom {
		// a plain variable is a one-term expression with no spare capacity: the result fits its storage
		// exactly when it is again a multiple of that variable
		kb, kc := e.K(b), e.K(c)
		if (kc.IsConst() && multipleOf(kb, at)) || (kb.IsConst() && multipleOf(kc, at)) {
			if e.AliasSubst == nil {
				e.AliasSubst = map[*Term]*Term{}
			}
			e.AliasSubst[at] = r
			return at
		}
	}
	if m, ok := a.(*Mut); ok && e.AliasMode {
		m.T = r // the accumulator's storage is reused
		return m
	}
	return e.wrap(r)
}

// multipleOf reports whether t is syntactically a constant multiple of the variable at.
func multipleOf(t, at *Term) bool {
	switch {
	case t == at:
		return true
	case t.Op == OpMul && len(t.Args) == 2:
		return (t.Args[0].IsConst() && multipleOf(t.Args[1], at)) || (t.Args[1].IsConst() && multipleOf(t.Args[0], at))
	case (t.Op == OpAdd || t.Op == OpSub) && len(t.Args) == 2:
		return multipleOf(t.Args[0], at) && multipleOf(t.Args[1], at)
	}
	return false
}

func (e *Ctx) site() string {
	if e.NoSites {
		return ""
	}
	return CallSite(e.SiteFilter, 8)
}

func (e *Ctx) assert(c Constraint) {
	c.Site = e.site()
	e.Cons = append(e.Cons, c)
}

func (e *Ctx) isTainted(t *Term) bool { return len(e.tainted) != 0 && e.tainted[t] }

func (e *Ctx) AssertIsEqual(a, b frontend.Variable) {
	A, B := e.K(a), e.K(b)
	if e.isTainted(A) || e.isTainted(B) {
		return
	}
	e.assert(Constraint{Kind: CEq, A: A, B: B})
}
func (e *Ctx) AssertIsDifferent(a, b frontend.Variable) {
	e.assert(Constraint{Kind: CNeq, A: e.K(a), B: e.K(b)})
}
func (e *Ctx) AssertIsBoolean(a frontend.Variable) {
	A := e.K(a)
	if A.Op == OpConst {
		if A.C.Sign() == 0 || A.C.Cmp(one) == 0 {
			return
		}
	}
	e.assert(Constraint{Kind: CBool, A: A})
}
func (e *Ctx) AssertIsLessOrEqual(v, bound frontend.Variable) {
	B := e.K(bound)
	if B.Op != OpConst {
		panic("sym: AssertIsLessOrEqual with non-constant bound not supported")
	}
	e.assert(Constraint{Kind: CLeq, A: e.K(v), B: B})
}
func (e *Ctx) IsZero(a frontend.Variable) frontend.Variable { return e.IsZeroT(e.K(a)) }
func (e *Ctx) Select(b, x, y frontend.Variable) frontend.Variable {
	B := e.K(b)
	e.AssertIsBoolean(B)
	return e.IteT(B, e.K(x), e.K(y))
}
func (e *Ctx) Lookup2(b0, b1, i0, i1, i2, i3 frontend.Variable) frontend.Variable {
	B0, B1 := e.K(b0), e.K(b1)
	e.AssertIsBoolean(B0)
	e.AssertIsBoolean(B1)
	return e.IteT(B1, e.IteT(B0, e.K(i3), e.K(i2)), e.IteT(B0, e.K(i1), e.K(i0)))
}

// ToBinary mirrors gnark's builder: n bit hints, booleanity, recomposition; for the full field
// width additionally the canonical bound (MustBeLessOrEqCst with r-1).
func (e *Ctx) ToBinary(v frontend.Variable, n ...int) []frontend.Variable {
	nb := R.BitLen()
	if len(n) > 0 {
		nb = n[0]
	}
	V := e.K(v)
	out := make([]frontend.Variable, nb)
	if V.Op == OpConst {
		if V.C.BitLen() > nb {
			// gnark would produce an unsatisfiable system; record it as such
			e.assert(Constraint{Kind: CEq, A: e.Const(zero), B: e.Const(one)})
		}
		for i := range out {
			out[i] = e.Const(big.NewInt(int64(V.C.Bit(i))))
		}
		return out
	}
	site := e.site()
	sum := e.Const(zero)
	c := big.NewInt(1)
	for i := 0; i < nb; i++ {
		b := e.Atom("bit", "bit", one)
		b.Site = site
		if e.ShadowOn && V.Shadow != nil {
			b.Shadow = big.NewInt(int64(V.Shadow.Bit(i)))
		}
		e.Cons = append(e.Cons, Constraint{Kind: CBool, A: b, Site: site})
		sum = e.bin(OpAdd, sum, e.bin(OpMul, b, e.Const(c)))
		c = new(big.Int).Lsh(c, 1)
		out[i] = b
	}
	if nb >= R.BitLen() {
		// sum of 254 bits may exceed r: the integer value of the bits must be <= r-1 and equal v
		// (gnark: MustBeLessOrEqCst(bits, r-1)). We keep the un-wrapped integer sum.
		isum := e.intSum(out)
		e.Cons = append(e.Cons, Constraint{Kind: CLeq, A: isum, B: e.Const(Rm1), Site: site})
		e.Cons = append(e.Cons, Constraint{Kind: CEq, A: isum, B: V, Site: site})
		return out
	}
	e.Cons = append(e.Cons, Constraint{Kind: CEq, A: sum, B: V, Site: site})
	return out
}

// intSum builds Σ 2^i b_i as a node whose interval is allowed to exceed r (marked not wrapping);
// only used under a CLeq constraint that bounds it by r-1.
func (e *Ctx) intSum(bits []frontend.Variable) *Term {
	args := make([]*Term, len(bits))
	for i := range bits {
		args[i] = e.K(bits[i])
	}
	hi := new(big.Int).Lsh(one, uint(len(bits)))
	hi.Sub(hi, one)
	t := &Term{Op: OpAdd, Lo: zero, Hi: hi}
	// build a balanced chain of plain additions with Wrap=false
	acc := e.Const(zero)
	c := big.NewInt(1)
	for i := range args {
		m := e.newTerm(&Term{Op: OpMul, Args: []*Term{args[i], e.Const(c)}, Lo: zero, Hi: new(big.Int).Set(c)})
		if e.ShadowOn && args[i].Shadow != nil {
			m.Shadow = new(big.Int).Mul(args[i].Shadow, c)
		}
		nh := new(big.Int).Add(acc.Hi, m.Hi)
		s := e.newTerm(&Term{Op: OpAdd, Args: []*Term{acc, m}, Lo: zero, Hi: nh})
		if e.ShadowOn && acc.Shadow != nil && m.Shadow != nil {
			s.Shadow = new(big.Int).Add(acc.Shadow, m.Shadow)
		}
		acc = s
		c = new(big.Int).Lsh(c, 1)
	}
	_ = t
	return acc
}

func (e *Ctx) FromBinary(b ...frontend.Variable) frontend.Variable {
	sum := e.Const(zero)
	c := big.NewInt(1)
	for i := range b {
		sum = e.bin(OpAdd, sum, e.bin(OpMul, e.K(b[i]), e.Const(c)))
		c = new(big.Int).Lsh(c, 1)
	}
	return sum
}

func (e *Ctx) Xor(a, b frontend.Variable) frontend.Variable {
	A, B := e.K(a), e.K(b)
	e.AssertIsBoolean(A)
	e.AssertIsBoolean(B)
	// a+b-2ab
	return e.bin(OpSub, e.bin(OpAdd, A, B), e.bin(OpMul, e.ConstU(2), e.bin(OpMul, A, B)))
}
func (e *Ctx) Or(a, b frontend.Variable) frontend.Variable {
	A, B := e.K(a), e.K(b)
	e.AssertIsBoolean(A)
	e.AssertIsBoolean(B)
	return e.bin(OpSub, e.bin(OpAdd, A, B), e.bin(OpMul, A, B))
}
func (e *Ctx) And(a, b frontend.Variable) frontend.Variable {
	A, B := e.K(a), e.K(b)
	e.AssertIsBoolean(A)
	e.AssertIsBoolean(B)
	return e.bin(OpMul, A, B)
}

// Inverse / Div / DivUnchecked: fresh y constrained by the defining product.
func (e *Ctx) Inverse(a frontend.Variable) frontend.Variable {
	A := e.K(a)
	y := e.Atom("finv", "finv", Rm1)
	if e.isTainted(A) {
		e.tainted[y] = true
		return y
	}
	if e.ShadowOn && A.Shadow != nil {
		y.Shadow = new(big.Int).ModInverse(A.Shadow, R)
	}
	e.assert(Constraint{Kind: CEq, A: e.bin(OpMul, A, y), B: e.Const(one)})
	return y
}
func (e *Ctx) Div(a, b frontend.Variable) frontend.Variable {
	A, B := e.K(a), e.K(b)
	y := e.Atom("fdiv", "fdiv", Rm1)
	if e.isTainted(A) || e.isTainted(B) {
		e.tainted[y] = true
		return y
	}
	e.assert(Constraint{Kind: CNeq, A: B, B: e.Const(zero)})
	e.assert(Constraint{Kind: CEq, A: e.bin(OpMul, B, y), B: A})
	return y
}
func (e *Ctx) DivUnchecked(a, b frontend.Variable) frontend.Variable {
	A, B := e.K(a), e.K(b)
	y := e.Atom("fdivu", "fdiv", Rm1)
	if e.isTainted(A) || e.isTainted(B) {
		e.tainted[y] = true
		return y
	}
	e.assert(Constraint{Kind: CEq, A: e.bin(OpMul, B, y), B: A})
	return y
}

func (e *Ctx) Println(a ...frontend.Variable) {}

func (e *Ctx) Compiler() frontend.Compiler { return e.Self.(frontend.Compiler) }

func (e *Ctx) ConstantValue(v frontend.Variable) (*big.Int, bool) {
	if t, ok := v.(*Term); ok {
		if t.Op == OpConst {
			return new(big.Int).Set(t.C), true
		}
		return nil, false
	}
	t := e.K(v)
	return new(big.Int).Set(t.C), true
}

func HintName(f solver.Hint) string {
	n := runtime.FuncForPC(reflect.ValueOf(f).Pointer()).Name()
	return n
}

func (e *Ctx) NewHint(f solver.Hint, nb int, inputs ...frontend.Variable) ([]frontend.Variable, error) {
	name := HintName(f)
	in := make([]*Term, len(inputs))
	allShadow := e.ShadowOn
	anyTaint := false
	for i := range inputs {
		in[i] = e.K(inputs[i])
		if in[i].Shadow == nil {
			allShadow = false
		}
		if e.isTainted(in[i]) {
			anyTaint = true
		}
	}
	site := e.site()
	short := name[strings.LastIndex(name, "/")+1:]
	out := make([]*Term, nb)
	res := make([]frontend.Variable, nb)
	for i := range out {
		out[i] = e.Atom("h_"+sanitize(short), "hint", Rm1)
		out[i].Site = site
		res[i] = out[i]
		if anyTaint {
			e.tainted[out[i]] = true
		}
	}
	if allShadow {
		ins := make([]*big.Int, len(in))
		for i := range in {
			ins[i] = new(big.Int).Set(in[i].Shadow)
		}
		outs := make([]*big.Int, nb)
		for i := range outs {
			outs[i] = new(big.Int)
		}
		if err := f(R, ins, outs); err != nil {
			return nil, err
		}
		for i := range outs {
			out[i].Shadow = outs[i].Mod(outs[i], R)
		}
	}
	e.Hints = append(e.Hints, HintRec{Name: short, In: in, Out: out, Site: site})
	if h, ok := e.kv[hintHookKey{short}]; ok {
		h.(func(*HintRec))(&e.Hints[len(e.Hints)-1])
	}
	return res, nil
}

type hintHookKey struct{ name string }

// OnHint registers a callback invoked when the named hint (short name, e.g.
// "logderivarg.countHint") is requested.
func (e *Ctx) OnHint(short string, f func(*HintRec)) { e.kv[hintHookKey{short}] = f }

// KV records a piece of information about the run (evidence).
func (e *Ctx) KV(k string, v any) {
	if e.Info == nil {
		e.Info = map[string]any{}
	}
	e.Info[k] = v
}

// Taint marks a term as depending on an (idealised) commitment.
func (e *Ctx) Taint(t *Term) { e.tainted[t] = true }

func sanitize(s string) string {
	b := []byte(s)
	for i, c := range b {
		if !(c >= 'a' && c <= 'z' || c >= 'A' && c <= 'Z' || c >= '0' && c <= '9') {
			b[i] = '_'
		}
	}
	return string(b)
}

// RunDeferred runs the deferred callbacks the way gnark's callDeferred does (re-reading the
// list, so callbacks registered by callbacks run too).
func (e *Ctx) RunDeferred() error {
	for i := 0; i < len(e.deferred); i++ {
		if err := e.deferred[i](e.Self); err != nil {
			return err
		}
	}
	return nil
}

// Refine computes the refined intervals (RLo/RHi/RWrap): atoms are narrowed by the CRange / CLeq
// facts asserted directly on them, all other terms are recomputed bottom-up.
func (e *Ctx) Refine() {
	hi := map[*Term]*big.Int{}
	for _, c := range e.Cons {
		if c.A == nil || c.A.Op != OpAtom {
			continue
		}
		var b *big.Int
		switch c.Kind {
		case CRange:
			b = new(big.Int).Lsh(one, uint(c.N))
			b.Sub(b, one)
		case CLeq:
			b = c.B.C
		case CBool:
			b = one
		default:
			continue
		}
		if old, ok := hi[c.A]; !ok || b.Cmp(old) < 0 {
			hi[c.A] = b
		}
	}
	for _, t := range e.all {
		switch t.Op {
		case OpConst:
			t.RLo, t.RHi = t.C, t.C
		case OpAtom:
			t.RLo, t.RHi = t.Lo, t.Hi
			if h, ok := hi[t]; ok && h.Cmp(t.Hi) < 0 {
				t.RHi = h
			}
		case OpAdd, OpMul, OpSub:
			a, b := t.Args[0], t.Args[1]
			var lo, h *big.Int
			switch t.Op {
			case OpAdd:
				lo, h = new(big.Int).Add(a.RLo, b.RLo), new(big.Int).Add(a.RHi, b.RHi)
			case OpMul:
				lo, h = new(big.Int).Mul(a.RLo, b.RLo), new(big.Int).Mul(a.RHi, b.RHi)
			case OpSub:
				lo, h = new(big.Int).Sub(a.RLo, b.RHi), new(big.Int).Sub(a.RHi, b.RLo)
			}
			if !t.Wrap {
				// never wrapped even without the facts; keep the (possibly wider than r) raw flag
				t.RWrap = false
				t.RLo, t.RHi = bmax(lo, t.Lo), bmin(h, t.Hi)
			} else if inR(lo, h) {
				t.RWrap = false
				t.RLo, t.RHi = lo, h
			} else {
				t.RWrap = true
				t.RLo, t.RHi = zero, Rm1
			}
		case OpIte:
			t.RLo, t.RHi = bmin(t.Args[1].RLo, t.Args[2].RLo), bmax(t.Args[1].RHi, t.Args[2].RHi)
		default:
			t.RLo, t.RHi = t.Lo, t.Hi
		}
	}
	e.refined = true
}

// RunDeferredN runs only the first n registered callbacks.
func (e *Ctx) RunDeferredN(n int) error {
	for i := 0; i < len(e.deferred) && i < n; i++ {
		if err := e.deferred[i](e.Self); err != nil {
			return err
		}
	}
	return nil
}

// AddRangeFact records 0 <= t < 2^n as a constraint-level fact.
func (e *Ctx) AddRangeFact(t *Term, n int) {
	e.assert(Constraint{Kind: CRange, A: t, N: n})
}

// AssertEqT is AssertIsEqual on terms without taint filtering.
func (e *Ctx) AssertEqT(a, b *Term) { e.assert(Constraint{Kind: CEq, A: a, B: b}) }

// CallSite returns the chain of frames (innermost first) whose function name contains filter.
func CallSite(filter string, max int) string {
	pcs := make([]uintptr, 40)
	k := runtime.Callers(3, pcs)
	fr := runtime.CallersFrames(pcs[:k])
	var parts []string
	for {
		f, more := fr.Next()
		if strings.Contains(f.Function, filter) && !strings.Contains(f.Function, "/verifhook") {
			fn := f.Function[strings.LastIndex(f.Function, "/")+1:]
			parts = append(parts, fmt.Sprintf("%s:%d", fn, f.Line))
		}
		if !more || len(parts) >= max {
			break
		}
	}
	return strings.Join(parts, " < ")
}

// ---------------------------------------------------------------- frontend.Compiler

func (e *Ctx) MarkBoolean(v frontend.Variable) {}
func (e *Ctx) IsBoolean(v frontend.Variable) bool {
	t := e.K(v)
	if t.Op == OpConst {
		return t.C.Sign() == 0 || t.C.Cmp(one) == 0
	}
	return false
}
func (e *Ctx) Field() *big.Int                   { return new(big.Int).Set(R) }
func (e *Ctx) FieldBitLen() int                  { return R.BitLen() }
func (e *Ctx) Defer(cb func(frontend.API) error) { e.deferred = append(e.deferred, cb) }
func (e *Ctx) SetKeyValue(k, v any)              { e.kv[k] = v }
func (e *Ctx) GetKeyValue(k any) any             { return e.kv[k] }

// ---------------------------------------------------------------- capability wrappers

// Plain implements neither frontend.Rangechecker nor frontend.Committer (bit decomposition).
type Plain struct{ *Ctx }

// Native implements frontend.Rangechecker: Check records the fact 0 <= v < 2^bits.
type Native struct{ *Ctx }

func (n *Native) Check(v frontend.Variable, bits int) { n.AddRangeFact(n.K(v), bits) }

// CommitAPI implements frontend.Committer; the commitment is an opaque tainted atom.
type CommitAPI struct {
	*Ctx
	Committed [][]*Term
}

func (c *CommitAPI) Commit(v ...frontend.Variable) (frontend.Variable, error) {
	ts := make([]*Term, len(v))
	for i := range v {
		ts[i] = c.K(v[i])
	}
	c.Committed = append(c.Committed, ts)
	a := c.Atom("commitment", "commitment", Rm1)
	c.Taint(a)
	return a, nil
}

func NewPlain() *Plain      { e := NewCtx(); w := &Plain{e}; e.Self = w; return w }
func NewNative() *Native    { e := NewCtx(); w := &Native{e}; e.Self = w; return w }
func NewCommit() *CommitAPI { e := NewCtx(); w := &CommitAPI{Ctx: e}; e.Self = w; return w }
