package sym

import (
	"testing"

	"github.com/consensys/gnark/frontend"
)

func TestIfaces(t *testing.T) {
	var a frontend.API = NewPlain()
	if _, ok := a.(frontend.Committer); ok {
		t.Fatal("plain is committer")
	}
	if _, ok := a.(frontend.Rangechecker); ok {
		t.Fatal("plain is rangechecker")
	}
	if _, ok := a.Compiler().(frontend.Compiler); !ok {
		t.Fatal("no compiler")
	}
	var n frontend.API = NewNative()
	if _, ok := n.(frontend.Rangechecker); !ok {
		t.Fatal("native not rangechecker")
	}
	var c frontend.API = NewCommit()
	if _, ok := c.Compiler().(frontend.Committer); !ok {
		t.Fatal("commit compiler not committer")
	}
	if _, ok := c.(frontend.Rangechecker); ok {
		t.Fatal("commit is rangechecker")
	}
}
