package sym

import (
	"fmt"
	"math/big"
	"sort"
	"strings"
)

// Emitter prints terms and constraints as SMT-LIB2 over Int. Exact mode: the denotation in F_r
// (integers in [0,r), `mod r` wherever the interval analysis could not exclude a wrap).
type Emitter struct {
	sb    strings.Builder
	names map[*Term]string
	ufs   map[string]bool
	// Lift: print the integer polynomial lifting instead of the exact value: no `mod r`,
	// Goldilocks constants by their symmetric representative, defined atoms (Def != nil) are
	// free variables unless Unfold says otherwise.
	Lift   bool
	Unfold func(*Term) bool
	// Subst replaces a term by another one before printing (cut points).
	Subst map[*Term]*Term
	// NoAtomRange suppresses range assertions on atoms (pure identities).
	NoAtomRange bool
	// Refined: decide wraps with the refined intervals (see (*Ctx).Refine). F = the range facts
	// asserted on atoms, E = any other constraint, E' = E printed with refined wraps: F => (E <=> E'),
	// so F /\ E <=> F /\ E' -- valid in either polarity as long as the facts are conjuncts of the
	// same conjunction (they are: the facts and the terms over an atom are in one cone).
	Refined bool
	Prefix  string
	// DefMode: atoms produced by the field-mode hooks are printed by their contracts instead of
	// as free variables: reduce / muladd atoms as (mod <exact Def> p), inverse atoms as the
	// uninterpreted function invGL of their operand.
	DefMode bool
	// Abstract: terms for which it returns true are printed as fresh unconstrained constants
	// (used by dependency queries to cut away the part of a DAG that cannot matter).
	Abstract func(*Term) bool
	// ModWrap prints wraps as (mod e r) instead of an explicit quotient: right for scripts in
	// which every atom is pinned (the solver only has to fold constants).
	ModWrap bool
	// Pin prints the listed atoms as literals (ground scripts).
	Pin func(*Term) *big.Int
	AtomsSeen   []*Term
}

// Fork returns an emitter that appends to its own buffer but shares the atom / function
// declarations of em: atoms already declared by em are not declared again, every node defined by
// the fork gets the given name prefix. Used to print a second copy of a DAG under a substitution.
func (em *Emitter) Fork(prefix string, subst map[*Term]*Term) *Emitter {
	f := &Emitter{names: map[*Term]string{}, ufs: em.ufs, DefMode: em.DefMode, Abstract: em.Abstract, Lift: em.Lift, Unfold: em.Unfold, Subst: subst, NoAtomRange: em.NoAtomRange, Refined: em.Refined, Prefix: prefix}
	for t, n := range em.names {
		if t.Op == OpConst || (t.Op == OpAtom && !(em.DefMode && (t.Def != nil || (t.Kind == "inverse" && len(t.Aux) == 1)))) || (em.Abstract != nil && em.Abstract(t)) {
			f.names[t] = n
		}
	}
	return f
}

func NewEmitter() *Emitter {
	return &Emitter{names: map[*Term]string{}, ufs: map[string]bool{}}
}

func (em *Emitter) String() string { return em.sb.String() }
func (em *Emitter) Raw(s string)   { em.sb.WriteString(s); em.sb.WriteByte('\n') }
func (em *Emitter) Assert(s string) {
	em.sb.WriteString("(assert ")
	em.sb.WriteString(s)
	em.sb.WriteString(")\n")
}

func lit(c *big.Int) string {
	if c.Sign() < 0 {
		return "(- " + new(big.Int).Neg(c).String() + ")"
	}
	return c.String()
}

var halfP = new(big.Int).Rsh(P, 1)

// SymLift maps a constant in [0,p) to its symmetric representative.
func SymLift(c *big.Int) *big.Int {
	if c.Cmp(P) < 0 && c.Cmp(halfP) > 0 {
		return new(big.Int).Sub(c, P)
	}
	return c
}

func (em *Emitter) resolve(t *Term) *Term {
	if em.Subst == nil {
		return t
	}
	for k := 0; k < 1000; k++ {
		s, ok := em.Subst[t]
		if !ok || s == t {
			return t
		}
		t = s
	}
	panic("emit: substitution cycle")
}

func (em *Emitter) kids(cur *Term) []*Term {
	if em.Abstract != nil && cur.Op != OpConst && em.Abstract(cur) {
		return nil
	}
	if cur.Op == OpAtom && em.DefMode {
		if cur.Def != nil {
			return []*Term{cur.Def}
		}
		if cur.Kind == "inverse" && len(cur.Aux) == 1 {
			return []*Term{cur.Aux[0]}
		}
		return nil
	}
	if cur.Op == OpAtom {
		if em.Lift && cur.Def != nil && em.Unfold != nil && em.Unfold(cur) {
			return []*Term{cur.Def}
		}
		return nil
	}
	return cur.Args
}

// Ref makes sure t is defined in the script and returns the SMT expression naming it.
func (em *Emitter) Ref(t *Term) string {
	t = em.resolve(t)
	if s, ok := em.names[t]; ok {
		return s
	}
	// iterative post-order to avoid deep recursion on long chains
	type frame struct {
		t *Term
		i int
	}
	stack := []frame{{t, 0}}
	for len(stack) > 0 {
		f := &stack[len(stack)-1]
		cur := f.t
		if _, ok := em.names[cur]; ok {
			stack = stack[:len(stack)-1]
			continue
		}
		kids := em.kids(cur)
		if f.i < len(kids) {
			k := em.resolve(kids[f.i])
			f.i++
			if _, ok := em.names[k]; !ok {
				stack = append(stack, frame{k, 0})
			}
			continue
		}
		em.define(cur, kids)
		stack = stack[:len(stack)-1]
	}
	return em.names[t]
}

func (em *Emitter) define(t *Term, kids []*Term) {
	if em.Abstract != nil && t.Op != OpConst && em.Abstract(t) {
		name := fmt.Sprintf("ab%d", t.ID)
		fmt.Fprintf(&em.sb, "(declare-const %s Int)\n", name)
		em.names[t] = name
		return
	}
	switch t.Op {
	case OpConst:
		if em.Lift {
			em.names[t] = lit(SymLift(t.C))
		} else {
			em.names[t] = lit(t.C)
		}
		return
	case OpAtom:
		if len(kids) == 1 && em.DefMode {
			name := fmt.Sprintf("%sd%d", em.Prefix, t.ID)
			k := em.names[em.resolve(kids[0])]
			if t.Def != nil {
				fmt.Fprintf(&em.sb, "(define-fun %s () Int (mod %s %s))\n", name, k, P)
			} else {
				if !em.ufs["invGL"] {
					em.ufs["invGL"] = true
					em.sb.WriteString("(declare-fun invGL (Int) Int)\n")
				}
				fmt.Fprintf(&em.sb, "(define-fun %s () Int (invGL %s))\n", name, k)
			}
			em.names[t] = name
			return
		}
		if len(kids) == 1 { // unfolded definitional atom
			em.names[t] = em.names[em.resolve(kids[0])]
			return
		}
		if em.Pin != nil {
			if v := em.Pin(t); v != nil {
				em.names[t] = lit(v)
				em.AtomsSeen = append(em.AtomsSeen, t)
				return
			}
		}
		em.names[t] = t.Name
		fmt.Fprintf(&em.sb, "(declare-const %s Int)\n", t.Name)
		if !em.NoAtomRange {
			// atoms are always declared with their raw range: the refinement only decides where a
			// `mod r` is needed, and is justified by facts that the same script asserts
			hi := t.Hi
			fmt.Fprintf(&em.sb, "(assert (and (<= %s %s) (<= %s %s)))\n", lit(t.Lo), t.Name, t.Name, lit(hi))
		}
		em.AtomsSeen = append(em.AtomsSeen, t)
		return
	}
	name := fmt.Sprintf("%sn%d", em.Prefix, t.ID)
	var expr string
	a := func(i int) string { return em.names[em.resolve(t.Args[i])] }
	switch t.Op {
	case OpAdd, OpMul, OpSub:
		expr = fmt.Sprintf("(%s %s %s)", t.Op, a(0), a(1))
		wrap := t.Wrap
		if em.Refined && t.RHi != nil {
			wrap = t.RWrap
		}
		if wrap && !em.Lift && em.ModWrap {
			expr = fmt.Sprintf("(mod %s %s)", expr, R)
		} else if wrap && !em.Lift {
			// value = expr mod r, written with an explicit (uniquely determined) quotient: this
			// is much easier for the solvers than `mod` by a 254-bit constant
			fmt.Fprintf(&em.sb, "(declare-const %sk%d Int)\n(define-fun %s () Int (- %s (* %sk%d %s)))\n(assert (and (<= 0 %s) (< %s %s)))\n", em.Prefix, t.ID, name, expr, em.Prefix, t.ID, R, name, name, R)
			em.names[t] = name
			return
		}
	case OpIte:
		expr = fmt.Sprintf("(ite (= %s 1) %s %s)", a(0), a(1), a(2))
	case OpIsZero:
		expr = fmt.Sprintf("(ite (= %s 0) 1 0)", a(0))
	case OpUF:
		fn := fmt.Sprintf("%s_%d", t.Name, t.Idx)
		if !em.ufs[fn] {
			em.ufs[fn] = true
			fmt.Fprintf(&em.sb, "(declare-fun %s (%s) Int)\n", fn, strings.TrimSpace(strings.Repeat("Int ", len(t.Args))))
		}
		parts := make([]string, len(t.Args))
		for i := range t.Args {
			parts[i] = a(i)
		}
		expr = fmt.Sprintf("(%s %s)", fn, strings.Join(parts, " "))
		fmt.Fprintf(&em.sb, "(define-fun %s () Int %s)\n", name, expr)
		if !em.NoAtomRange {
			fmt.Fprintf(&em.sb, "(assert (and (<= 0 %s) (<= %s %s)))\n", name, name, lit(t.Hi))
		}
		em.names[t] = name
		return
	default:
		panic("emit: op " + t.Op.String())
	}
	fmt.Fprintf(&em.sb, "(define-fun %s () Int %s)\n", name, expr)
	em.names[t] = name
}

// Cons prints one constraint as a Boolean expression.
func (em *Emitter) Cons(c Constraint) string {
	switch c.Kind {
	case CEq:
		return fmt.Sprintf("(= %s %s)", em.Ref(c.A), em.Ref(c.B))
	case CNeq:
		return fmt.Sprintf("(not (= %s %s))", em.Ref(c.A), em.Ref(c.B))
	case CBool:
		a := em.Ref(c.A)
		return fmt.Sprintf("(or (= %s 0) (= %s 1))", a, a)
	case CRange:
		a := em.Ref(c.A)
		return fmt.Sprintf("(and (<= 0 %s) (< %s %s))", a, a, new(big.Int).Lsh(one, uint(c.N)))
	case CLeq:
		return fmt.Sprintf("(<= %s %s)", em.Ref(c.A), em.Ref(c.B))
	}
	panic("cons kind")
}

// AssertAll asserts every constraint recorded in the context.
func (em *Emitter) AssertAll(e *Ctx) {
	for _, c := range e.Cons {
		em.Assert(em.Cons(c))
	}
}

// EvalShadow returns whether constraint c holds on shadow values (nil if no shadow).
func (c Constraint) HoldsOnShadow() (bool, bool) {
	if c.A == nil || c.A.Shadow == nil {
		return false, false
	}
	switch c.Kind {
	case CEq:
		if c.B.Shadow == nil {
			return false, false
		}
		return c.A.Shadow.Cmp(c.B.Shadow) == 0, true
	case CNeq:
		if c.B.Shadow == nil {
			return false, false
		}
		return c.A.Shadow.Cmp(c.B.Shadow) != 0, true
	case CBool:
		return c.A.Shadow.Sign() == 0 || c.A.Shadow.Cmp(one) == 0, true
	case CRange:
		return c.A.Shadow.BitLen() <= c.N, true
	case CLeq:
		return c.A.Shadow.Cmp(c.B.C) <= 0, true
	}
	return false, false
}

// SortedAtomNames is a helper for get-value.
func SortedAtomNames(ts []*Term) []string {
	var out []string
	for _, t := range ts {
		out = append(out, t.Name)
	}
	sort.Strings(out)
	return out
}

// DependsOn returns the set of terms below root (following Def / inverse operands as in DefMode)
// whose value can depend on target.
func DependsOn(root, target *Term) map[*Term]bool {
	dep := map[*Term]bool{}
	seen := map[*Term]bool{}
	kids := func(x *Term) []*Term {
		if x.Op == OpAtom {
			if x.Def != nil {
				return []*Term{x.Def}
			}
			if x.Kind == "inverse" && len(x.Aux) == 1 {
				return x.Aux
			}
			return nil
		}
		return x.Args
	}
	type fr struct {
		t *Term
		i int
	}
	st := []fr{{root, 0}}
	for len(st) > 0 {
		f := &st[len(st)-1]
		if seen[f.t] {
			st = st[:len(st)-1]
			continue
		}
		ks := kids(f.t)
		if f.i < len(ks) {
			k := ks[f.i]
			f.i++
			if !seen[k] {
				st = append(st, fr{k, 0})
			}
			continue
		}
		seen[f.t] = true
		d := f.t == target
		for _, k := range ks {
			if dep[k] {
				d = true
			}
		}
		if d {
			dep[f.t] = true
		}
		st = st[:len(st)-1]
	}
	return dep
}
