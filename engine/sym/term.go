// Package sym is a symbolic implementation of gnark's frontend.API: the circuit code of the
// repository is executed natively by Go (all control flow is concrete) while every
// frontend.Variable is a node of a term DAG. Hints return fresh unconstrained atoms, assertions
// are recorded as constraints. Terms are later printed as SMT-LIB.
package sym

import (
	"fmt"
	"math/big"
)

// R is the BN254 scalar field modulus, P the Goldilocks modulus.
var (
	R, _ = new(big.Int).SetString("21888242871839275222246405745257275088548364400416034343698204186575808495617", 10)
	P, _ = new(big.Int).SetString("18446744069414584321", 10)
	Rm1  = new(big.Int).Sub(R, big.NewInt(1))
	Pm1  = new(big.Int).Sub(P, big.NewInt(1))
	zero = big.NewInt(0)
	one  = big.NewInt(1)
)

type Op uint8

const (
	OpConst Op = iota
	OpAtom
	OpAdd
	OpMul
	OpSub
	OpIte    // args: cond, then, else ; cond==1 selects then
	OpIsZero // 1 if arg==0 else 0
	OpUF     // uninterpreted function application: Name(args...) -> output Idx
)

var opName = map[Op]string{OpConst: "const", OpAtom: "atom", OpAdd: "+", OpMul: "*", OpSub: "-", OpIte: "ite", OpIsZero: "iszero", OpUF: "uf"}

func (o Op) String() string { return opName[o] }

// Term is a node of the DAG. Its denotation is an element of F_r represented by the integer in
// [0, r). Lo/Hi is an interval that contains that integer. For Add/Mul/Sub nodes Wrap says whether
// the integer expression over the arguments may leave [0, r) (then the denotation is the expression
// mod r); when Wrap is false the denotation equals the plain integer expression.
type Term struct {
	ID     int
	Op     Op
	Args   []*Term
	C      *big.Int // OpConst
	Name   string   // OpAtom / OpUF
	Idx    int      // OpUF output index
	Lo, Hi *big.Int
	Wrap   bool
	// Refined interval / wrap flag: as above, but computed under the range facts that the
	// constraint set itself asserts on atoms (valid wherever those facts are assumed). Set by
	// (*Ctx).Refine.
	RLo, RHi *big.Int
	RWrap    bool
	// Atoms only:
	Kind string // input, hint, bit, muladd, reduce, inverse, hasinv, permgl, permbn, chunk, ...
	Site string // static call site (call stack) that created the atom
	Def  *Term  // field mode: the atom is congruent to Def modulo P (definitional)
	// Shadow is the concrete value of the node in a pinned (honest) run, nil otherwise.
	Shadow *big.Int
	// Aux carries hook specific data (e.g. the operand of an inverse atom).
	Aux []*Term
	N   uint64 // e.g. maxNbBits of a reduce
}

func (t *Term) IsConst() bool { return t.Op == OpConst }

func (t *Term) String() string {
	switch t.Op {
	case OpConst:
		return t.C.String()
	case OpAtom:
		return t.Name
	}
	return fmt.Sprintf("n%d", t.ID)
}

func bmin(a, b *big.Int) *big.Int {
	if a.Cmp(b) < 0 {
		return a
	}
	return b
}
func bmax(a, b *big.Int) *big.Int {
	if a.Cmp(b) > 0 {
		return a
	}
	return b
}
