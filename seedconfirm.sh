#!/bin/bash
# seedconfirm.sh <worktree> : confirm a seeded change: builds, suite as baseline, demo fails with / passes without.
wt="$1"; export GOFLAGS=-mod=mod GOPROXY=off GOSUMDB=off
cd "$wt/gnark-plonky2-verifier" || exit 2
out="$wt/confirm.txt"; : > "$out"
go build ./... >>"$out" 2>&1 && echo "build_with_change=ok" >>"$out" || echo "build_with_change=FAIL" >>"$out"
demos=$(find . -name 'zz_*_test.go' | tr '\n' ' ')
echo "demos=$demos" >>"$out"
rundemo() { # runs every demo test, exit 1 if any fails
  rc=0
  for f in $demos; do
    pkg=$(dirname $f); names=$(grep -h '^func Test' $f | sed 's/func \(Test[A-Za-z0-9_]*\).*/\1/' | tr '\n' '|' | sed 's/|$//')
    go test -vet=off -count=1 -timeout 30m -run "^($names)\$" $pkg >> "$1" 2>&1 || rc=1
  done
  return $rc
}
rundemo "$wt/demo_with.log"; echo "demo_with_change_exit=$?" >>"$out"
mkdir -p "$wt/.demo_hold"; for f in $demos; do mkdir -p "$wt/.demo_hold/$(dirname $f)"; mv $f "$wt/.demo_hold/$f"; done
go test -mod=mod -json -vet=off -count=1 -timeout 25m ./... > "$wt/suite_with.json" 2>/dev/null
python3 - "$wt/suite_with.json" >>"$out" <<'PY'
import json,sys
base=json.load(open('/root/.vp/BASELINE.json')); want=set(base['stable_pass']); res={}
for l in open(sys.argv[1]):
    try: d=json.loads(l)
    except: continue
    if d.get('Test') and d.get('Action') in('pass','fail','skip'): res[d['Package']+'::'+d['Test']]=d['Action']
bad=[t for t in want if res.get(t)!='pass']
print(f"suite_with_change={len(want)-len(bad)}/{len(want)} stable tests pass")
PY
for f in $demos; do mv "$wt/.demo_hold/$f" $f; done
git -C "$wt" apply -R "$wt/patch.diff" && rundemo "$wt/demo_without.log"; echo "demo_without_change_exit=$?" >>"$out"
git -C "$wt" apply "$wt/patch.diff"
cat "$out"
