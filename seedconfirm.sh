#!/bin/bash
# seedconfirm.sh <worktree> : confirm a seeded change: builds, suite as baseline, demo fails with / passes without.
wt="$1"; export GOFLAGS=-mod=mod GOPROXY=off GOSUMDB=off
cd "$wt/gnark-plonky2-verifier" || exit 2
out="$wt/confirm.txt"; : > "$out"
go build ./... >>"$out" 2>&1 && echo "build_with_change=ok" >>"$out" || echo "build_with_change=FAIL" >>"$out"
demos=$(ls tests/zz_*_test.go 2>/dev/null | tr '\n' ' ')
echo "demos=$demos" >>"$out"
# demo with change
go test -vet=off -count=1 -run 'ZZ' ./tests/ > "$wt/demo_with.log" 2>&1; echo "demo_with_change_exit=$?" >>"$out"
# suite with change (demo moved away)
mkdir -p "$wt/.demo_hold"; mv tests/zz_*_test.go "$wt/.demo_hold/" 2>/dev/null
go test -mod=mod -json -vet=off -count=1 -timeout 25m ./... > "$wt/suite_with.json" 2>/dev/null
python3 - "$wt/suite_with.json" >>"$out" <<'PY'
import json,sys
base=json.load(open('/root/.vp/BASELINE.json')); want=set(base['stable_pass']); res={}
for l in open(sys.argv[1]):
    try: d=json.loads(l)
    except: continue
    if d.get('Test') and d.get('Action') in('pass','fail','skip'): res[d['Package']+'::'+d['Test']]=d['Action']
bad=[t for t in want if res.get(t)!='pass']
print(f"suite_with_change={len(want)-len(bad)}/{len(want)} stable tests pass")
PY
mv "$wt/.demo_hold/"* tests/ 2>/dev/null
# demo without change
git -C "$wt" apply -R "$wt/patch.diff" && go test -vet=off -count=1 -run 'ZZ' ./tests/ > "$wt/demo_without.log" 2>&1; echo "demo_without_change_exit=$?" >>"$out"
git -C "$wt" apply "$wt/patch.diff"
cat "$out"
