#!/bin/bash
# Runs the repository's pinned Go test suite (BASELINE.json) on /repo as it is and prints pass/fail per test.
export GOFLAGS=-mod=mod GOPROXY=off GOSUMDB=off
cd /repo/gnark-plonky2-verifier || exit 2
go test -mod=mod -json -vet=off -count=1 -timeout 25m ./... > /var/tmp/baseline.json 2>/var/tmp/baseline.err
python3 - <<'PY'
import json
base=json.load(open('/root/.vp/BASELINE.json'))
want=set(base['stable_pass'])
res={}
for l in open('/var/tmp/baseline.json'):
    try: d=json.loads(l)
    except: continue
    if d.get('Test') and d.get('Action') in('pass','fail','skip'):
        res[d['Package']+'::'+d['Test']]=d['Action']
ok=[t for t in want if res.get(t)=='pass']
bad=[t for t in want if res.get(t)!='pass']
print(f"baseline: {len(ok)}/{len(want)} stable tests pass")
for t in bad: print("  NOT PASSING:",t,res.get(t))
import sys; sys.exit(0 if not bad else 1)
PY
