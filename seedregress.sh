#!/bin/bash
# seedregress.sh [workers] : re-run, for every stored seeded change, the first check recorded as catching it, and
# list the ones that no longer produce a VIOLATION line. Works on scratch worktrees of /repo under /var/tmp (removed
# at the end), so /repo itself is not touched; evidence and replays go to /var/tmp/seedregress_out.<n>.
workers="${1:-3}"
cd "$(dirname "$0")" || exit 2
list=$(mktemp)
python3 - > "$list" <<'PY'
import json,glob,os,re
for d in sorted(glob.glob('/verif/seeded/C*')):
    m=json.load(open(d+'/meta.json'))
    ids=re.findall(r'C\d\d', m.get('caught_by',''))
    if ids: print(os.path.basename(d), ids[0])
PY
total=$(wc -l < "$list")
res=/var/tmp/seedregress.results; : > "$res"
for w in $(seq 1 "$workers"); do
  (
    wt=/var/tmp/seedregress_wt.$w
    git -C /repo worktree remove --force "$wt" 2>/dev/null
    git -C /repo worktree add --detach "$wt" HEAD >/dev/null 2>&1 || exit 2
    awk -v w="$w" -v n="$workers" 'NR % n == w - 1' "$list" | while read -r name id; do
      git -C "$wt" checkout -- . ; git -C "$wt" clean -fdq
      if ! git -C "$wt" apply "/verif/seeded/$name/patch.diff"; then echo "$name $id APPLY-FAILED" >> "$res"; continue; fi
      s=$(date +%s)
      out=$(VERIF_REPO="$wt" VERIF_OUT=/var/tmp/seedregress_out.$w timeout 2400 ./vcheck run "$id" --tier quick 2>&1)
      if echo "$out" | grep -q "^VIOLATION property=$id"; then v=caught; else v=MISSED; fi
      echo "$name $id $v $(( $(date +%s) - s ))s" >> "$res"
    done
    git -C /repo worktree remove --force "$wt"
  ) &
done
wait
git -C /repo worktree prune
rm -f "$list"
echo "seeds: $total, caught: $(grep -c ' caught ' "$res"), not caught: $(grep -vc ' caught ' "$res")"
grep -v ' caught ' "$res"
