#!/bin/bash
# seedtest.sh <patch.diff> <ID> [<ID>...]: apply a seeded change to /repo, run the quick checks, undo it.
patch="$1"; shift
cd /repo || exit 2
if [ -n "$(git status --porcelain)" ]; then echo "repo not clean"; exit 2; fi
git apply "$patch" || { echo "patch does not apply"; exit 2; }
for id in "$@"; do
  echo "=== $id on $(basename $(dirname $patch))"
  out=$(cd /verif && VERIF_OUT=/var/tmp/seedtest_out timeout 1500 ./vcheck run $id --tier quick 2>&1)
  echo "$out" | grep -E "quick:" | cut -c1-260
  echo "VIOLATION lines: $(echo "$out" | grep -c '^VIOLATION'); INCONCLUSIVE lines: $(echo "$out" | grep -c '^INCONCLUSIVE')"
  echo "$out" | grep -E "^VIOLATION|^INCONCLUSIVE" | head -2 | cut -c1-260
done
git -C /repo checkout -- .
git -C /repo status --porcelain | head -2
