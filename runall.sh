#!/bin/bash
# runall.sh [quick|thorough] : run every registered check on the current tree, one after the other; summary on stdout
tier="${1:-quick}"
cd "$(dirname "$0")"
for id in $(python3 -c "import json; print(' '.join(c['property_id'] for c in json.load(open('MANIFEST.json'))['checks']))"); do
  s=$(date +%s)
  out=$(./vcheck run $id --tier $tier 2>&1); rc=$?
  echo "$id rc=$rc $(( $(date +%s) - s ))s $(echo "$out" | grep -E "$tier:" | tail -1)"
  echo "$out" | grep -E "^VIOLATION|^INCONCLUSIVE|^KNOWN-FINDING" | head -5
done
