#!/bin/bash
# seedsave.sh <worktree> <name> <property> "<checks that catch it>" : store a confirmed seeded change under /verif/seeded/<name>
wt="$1"; name="$2"; prop="$3"; caught="$4"
d=/verif/seeded/$name; mkdir -p $d
cp $wt/patch.diff $d/patch.diff
(cd $wt/gnark-plonky2-verifier && for f in $(find . -name "zz_*_test.go"); do cp "$f" "$d/$(echo "$f" | sed "s|^\./||; s|/|__|g")"; done)
cp $wt/meta.txt $d/agent_meta.txt 2>/dev/null
python3 - "$wt" "$d" "$prop" "$caught" <<'PY'
import json,sys,re
wt,d,prop,caught=sys.argv[1:5]
conf=dict(l.strip().split('=',1) for l in open(wt+'/confirm.txt') if '=' in l)
meta=open(wt+'/meta.txt').read() if True else ''
json.dump({"property":prop,"patch":"patch.diff","demonstration":[f for f in __import__('os').listdir(d) if f.endswith('_test.go')],
 "what_it_needs_to_manifest":"see agent_meta.txt (written by the independent sub-agent that produced the change)",
 "confirmed_by_me":{"worktree":"scratch git worktree of /repo under /tmp (removed afterwards)","commands":"/verif/seedconfirm.sh <worktree>: go build ./...; go test -run ZZ ./tests/ with the change; full suite with the change vs BASELINE.json; demo again with the change reverted","results":conf},
 "caught_by":caught,"how_run":"/verif/seedtest.sh /verif/seeded/%s/patch.diff <checks> (applies to /repo, runs ./vcheck run <ID> --tier quick, reverts)"%d.split('/')[-1]},open(d+'/meta.json','w'),indent=1)
PY
ls $d
