#!/usr/bin/env python3-vt
import json,jsonschema,glob,sys
m=json.load(open('/verif/MANIFEST.json')); s=json.load(open('/root/.vp/MANIFEST.schema.json')); jsonschema.validate(m,s); print("manifest ok:",len(m['checks']),"checks,",len(m.get('not_applicable',[])),"n/a")
es=json.load(open('/root/.vp/EVIDENCE.schema.json'))
for f in sorted(glob.glob('/verif/evidence/*.json')):
    try:
        jsonschema.validate(json.load(open(f)),es); print("evidence ok:",f)
    except Exception as e:
        print("EVIDENCE INVALID",f,str(e)[:300]); sys.exit(1)
ids={json.loads(l)['id'] for l in open('/verif/properties.jsonl')}
cl={c['property_id'] for c in m['checks']}; na={c['property_id'] for c in m.get('not_applicable',[])}
assert cl|na==ids and not (cl&na), (ids-cl-na, cl&na)
